//! Shim so that one harness body runs both under Kani (symbolic) and natively
//! (replaying the concrete values of a Kani counterexample, in `any()` order).
#![allow(dead_code)]

#[cfg(not(kani))]
pub mod native {
    use std::cell::RefCell;
    thread_local! {
        pub static QUEUE: RefCell<Vec<Vec<u8>>> = RefCell::new(Vec::new());
        pub static POS: RefCell<usize> = RefCell::new(0);
        pub static FAILED: RefCell<Vec<String>> = RefCell::new(Vec::new());
        pub static ASSUME_BROKEN: RefCell<Option<String>> = RefCell::new(None);
        pub static EXHAUSTED: RefCell<bool> = RefCell::new(false);
    }
    pub fn load(vals: Vec<Vec<u8>>) {
        QUEUE.with(|q| *q.borrow_mut() = vals);
        POS.with(|p| *p.borrow_mut() = 0);
        FAILED.with(|f| f.borrow_mut().clear());
        ASSUME_BROKEN.with(|a| *a.borrow_mut() = None);
        EXHAUSTED.with(|a| *a.borrow_mut() = false);
    }
    pub fn take(n: usize) -> Vec<u8> {
        let i = POS.with(|p| { let mut p = p.borrow_mut(); let i = *p; *p += 1; i });
        QUEUE.with(|q| {
            let q = q.borrow();
            if i < q.len() && q[i].len() == n { q[i].clone() } else {
                EXHAUSTED.with(|a| *a.borrow_mut() = true);
                vec![0u8; n]
            }
        })
    }
}

pub trait Sym: Sized {
    fn sym() -> Self;
}

macro_rules! sym_int {
    ($($t:ty)*) => {$(
        impl Sym for $t {
            #[cfg(kani)]
            fn sym() -> Self { kani::any() }
            #[cfg(not(kani))]
            fn sym() -> Self {
                let b = native::take(core::mem::size_of::<$t>());
                let mut a = [0u8; core::mem::size_of::<$t>()];
                a.copy_from_slice(&b);
                <$t>::from_le_bytes(a)
            }
        }
    )*};
}
sym_int! { u8 u16 u32 u64 u128 usize i8 i16 i32 i64 i128 isize }

impl Sym for bool {
    #[cfg(kani)]
    fn sym() -> Self { kani::any() }
    #[cfg(not(kani))]
    fn sym() -> Self { native::take(1)[0] != 0 }
}

impl<T: Sym, const N: usize> Sym for [T; N] {
    fn sym() -> Self { [(); N].map(|_| T::sym()) }
}

/// A fresh symbolic value.
pub fn any<T: Sym>() -> T { T::sym() }

#[cfg(kani)]
pub fn assume(c: bool) { kani::assume(c) }
#[cfg(not(kani))]
pub fn assume(c: bool) {
    if !c {
        native::ASSUME_BROKEN.with(|a| { let mut a = a.borrow_mut(); if a.is_none() { *a = Some("assumption".into()); } });
        // unwinding is caught by the replay driver
        std::panic::panic_any(ReplayDiverged);
    }
}
#[cfg(not(kani))]
pub struct ReplayDiverged;

/// A named postcondition: `vcheck!(cond, "name")`.
#[macro_export]
macro_rules! vcheck {
    ($c:expr, $name:literal) => {{
        #[cfg(kani)]
        { assert!($c, $name); }
        #[cfg(not(kani))]
        { $crate::vk::check_native($c, $name); }
    }};
}
#[cfg(not(kani))]
pub fn check_native(c: bool, name: &'static str) {
    if !c { native::FAILED.with(|f| f.borrow_mut().push(name.to_string())); }
}

#[cfg(kani)]
#[inline(always)]
pub fn cover(c: bool) { kani::cover!(c) }
#[cfg(not(kani))]
pub fn cover(_c: bool) {}
