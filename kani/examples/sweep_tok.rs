//! Developer aid (not a check): exhaustive native sweep of cmp_tok to debug the reference grammar quickly.
use lexical_parse_float::Options;
fn main() {
    let alpha: &[u8] = b"019+-eE.a_";
    let opts = Options::new();
    let mut n = 0u64; let mut bad = 0u64;
    let maxlen: usize = std::env::args().nth(1).map(|s| s.parse().unwrap()).unwrap_or(6);
    let mut idx = vec![0usize; maxlen];
    for len in 0..=maxlen {
        let mut idx = vec![0usize; len];
        loop {
            let s: Vec<u8> = idx.iter().map(|&i| alpha[i]).collect();
            n += 1;
            if let Err(e) = lexverif::h_float_tok::cmp_tok::<{ lexical_util::format::STANDARD }>(&s, &opts) {
                bad += 1;
                if bad < 30 { println!("{:?}: {}", String::from_utf8_lossy(&s), e); }
            }
            let mut k = 0;
            while k < len { idx[k] += 1; if idx[k] < alpha.len() { break; } idx[k] = 0; k += 1; }
            if k == len { break; }
        }
    }
    let _ = idx;
    println!("{n} strings, {bad} disagreements");
}
