"""Row / constant obligation generators (closed facts copied from the current source)."""
import os
import re

from core import REPO
import vunit

GENERATORS = {}


def gen(name):
    def deco(f):
        GENERATORS[name] = f
        return f
    return deco


def run(name, wd):
    facts, functions, prelude = GENERATORS[name]()
    return vunit.run_rows_unit(name, wd, facts, prelude=prelude, functions=functions)


def _read(rel):
    with open(os.path.join(REPO, rel)) as f:
        return f.read()


def _strip_comments(s):
    return re.sub(r'//[^\n]*', '', s)


def _array(src, name, allow_static=True):
    """Return (declared_len_text, body_text) of `const|static NAME: [T; N] = [ ... ];` (first cfg variant whose
    element type is u64/u8/(u64, u64)/i32 -- 32-bit-limb variants are skipped)."""
    for m in re.finditer(r'(?:pub\s+)?(?:const|static)\s+%s\s*:\s*\[\s*([^;\]]+?)\s*;\s*([^\]]+?)\s*\]\s*=\s*\[(.*?)\];' % re.escape(name), src, re.S):
        ty = m.group(1).strip()
        if ty == 'u32' and name.startswith('LARGE_POW'):
            continue
        return ty, m.group(2).strip(), m.group(3)
    return None


TBL_PRELUDE = """
pub open spec fn dch(d: nat) -> u8 { if d < 10 { (48 + d) as u8 } else { (55 + d) as u8 } }
pub open spec fn tbl_rng(s: Seq<u8>, r: nat, lo: nat, hi: nat) -> bool decreases hi - lo {
  if lo >= hi { true } else if lo + 1 == hi { s[(2*lo) as int] == dch(lo / r) && s[(2*lo+1) as int] == dch(lo % r) }
  else { let mid = (lo + (hi - lo) / 2) as nat; tbl_rng(s, r, lo, mid) && tbl_rng(s, r, mid, hi) }
}
pub open spec fn seq_pows(s: Seq<u64>, r: nat, lo: nat, hi: nat) -> bool decreases hi - lo {
  if lo >= hi { true } else if lo + 1 == hi { s[lo as int] as nat == pw(r, lo) }
  else { let mid = (lo + (hi - lo) / 2) as nat; seq_pows(s, r, lo, mid) && seq_pows(s, r, mid, hi) }
}
pub open spec fn limbs_val(s: Seq<u64>, i: nat) -> nat decreases s.len() - i {
  if i >= s.len() { 0 } else { s[i as int] as nat + 0x1_0000_0000_0000_0000 * limbs_val(s, i + 1) }
}
"""


@gen("wi-digit-tables")
def wi_digit_tables():
    """DIGIT_TO_BASE{r}_SQUARED[2k], [2k+1] == digit chars of k / r, k % r, for every k < r^2, every radix."""
    facts = []
    for rel in ("lexical-write-integer/src/table_decimal.rs", "lexical-write-integer/src/table_binary.rs",
                "lexical-write-integer/src/table_radix.rs"):
        src = _read(rel)
        for m in re.finditer(r'pub const DIGIT_TO_BASE(\d+)_SQUARED: \[u8; (\d+)\] = \[(.*?)\];', src, re.S):
            r = int(m.group(1))
            body = _strip_comments(m.group(3)).strip()
            facts.append(("DIGIT_TO_BASE%d_SQUARED" % r,
                          "({ let s = seq![%s]; s.len() == %s && s.len() == 2 * %d * %d && tbl_rng(s, %d, 0, %d) })"
                          % (body, m.group(2), r, r, r, r * r),
                          "%s: %s... (%s entries)" % (rel, body[:60].replace("\n", " "), m.group(2))))
    fns = ["lexical-write-integer::table_decimal/table_binary/table_radix::DIGIT_TO_BASE{2..36}_SQUARED"]
    return facts, fns, TBL_PRELUDE


@gen("util-step")
def util_step():
    """min_step_N(bits, signed) = k  ==>  N^k <= 2^(bits - signed)   (all values in [0, N^k) fit);
    and the u128_divrem_N divisor literal equals N^u64_step(N) (digits-per-chunk consistency)."""
    src = _read("lexical-util/src/step.rs")
    div = _read("lexical-util/src/div128.rs")
    facts = []
    k64 = {}
    for m in re.finditer(r'const fn min_step_(\d+)\(bits: usize, is_signed: bool\) -> usize \{\s*match bits \{(.*?)\n    \}', src, re.S):
        r = int(m.group(1))
        for a in re.finditer(r'(\d+) if (!?)is_signed => (\d+),', m.group(2)):
            bits, neg, k = int(a.group(1)), a.group(2), int(a.group(3))
            e = bits if neg == '!' else bits - 1
            if bits == 64 and neg == '!':
                k64[r] = k
            facts.append(("min_step_%d[%d,%s]" % (r, bits, "unsigned" if neg else "signed"),
                          "pw(%d, %d) <= pw(2, %d)" % (r, k, e), a.group(0).strip()))
    for m in re.finditer(r'fn u128_divrem_(\d+)\(n: u128\) -> \(u128, u64\) \{\s*(\w+)\(([^)]*)\)\s*\}', div):
        r = int(m.group(1))
        args = [a.strip() for a in m.group(3).replace("\n", " ").split(",") if a.strip()]
        if r not in k64:
            continue
        if m.group(2) == "pow2_u128_divrem":
            facts.append(("u128_divrem_%d::mask/shr == radix^u64_step" % r,
                          "pw(2, %s) == pw(%d, %d) && %snat == pw(2, %s) - 1" % (args[2], r, k64[r], args[1], args[2]),
                          m.group(0).replace("\n", " ")[:160]))
        else:
            facts.append(("u128_divrem_%d::divisor == radix^u64_step" % r,
                          "%snat == pw(%d, %d)" % (args[1], r, k64[r]), m.group(0).replace("\n", " ")[:160]))
            if m.group(2) == "slow_u128_divrem":
                # d_ctlz literal is the number of leading zeros of d
                facts.append(("u128_divrem_%d::d_ctlz" % r,
                              "pw(2, %d) <= %snat && %snat < pw(2, %d)" % (63 - int(args[2]), args[1], args[1], 64 - int(args[2])),
                              m.group(0).replace("\n", " ")[:160]))
    return facts, ["lexical-util::step::min_step_{2..36}", "lexical-util::step::u64_step",
                   "lexical-util::div128::u128_divrem_{2..36} (constants)"], ""


def _match_arms(src, fname, cfg_radix=True):
    """arms of the `#[cfg(feature = "radix")]` variant of `pub const fn fname(radix: u32)`"""
    ms = list(re.finditer(r'((?:#\[[^\]]*\]\s*)*)pub const fn %s\(radix: u32\) -> [^{]+\{\s*match radix \{(.*?)\n    \}' % fname, src, re.S))
    out = []
    for m in ms:
        attrs = m.group(1)
        if 'feature = "radix"' in attrs and 'not(feature = "radix")' not in attrs:
            variant = "radix"
        elif 'power-of-two' in attrs and 'not(feature = "power-of-two")' not in attrs.replace('all(feature = "power-of-two", not(feature = "radix"))', ''):
            variant = "pow2"
        elif 'all(feature = "power-of-two"' in attrs:
            variant = "pow2"
        else:
            variant = "default"
        arms = re.findall(r'\n\s*(\d+) => ([^,\n]+(?:, -?\d+\))?),', m.group(2))
        out.append((variant, arms))
    return out


def _odd_part(r):
    while r % 2 == 0:
        r //= 2
    return r


def _is_pow2(r):
    return r & (r - 1) == 0


@gen("pf-limits")
def pf_limits():
    """Clinger fast-path limits (safety direction only: what exactness needs, not maximality)."""
    src = _read("lexical-parse-float/src/limits.rs")
    facts = []
    for ty, p, maxe in (("f32", 24, 127), ("f64", 53, 1023)):
        for variant, arms in _match_arms(src, "%s_exponent_limit" % ty):
            for r, val in arms:
                r = int(r)
                m = re.match(r'\((-?\d+), (-?\d+)\)', val.strip())
                lo, hi = int(m.group(1)), int(m.group(2))
                name = "%s_exponent_limit[%s](%d)" % (ty, variant, r)
                if _is_pow2(r):
                    lg = r.bit_length() - 1
                    # r^hi = 2^(lg*hi) must be a finite normal power of two, r^lo a normal one
                    facts.append((name, "%d * %d <= %d && %d <= %d && %d <= 0" % (lg, hi, maxe, -lo, hi, lo),
                                  "%d => %s" % (r, val)))
                else:
                    # odd(r)^hi exactly representable: < 2^p ; symmetric lower bound
                    facts.append((name, "pw(%d, %d) <= pw(2, %d) && %d == -%d" % (_odd_part(r), hi, p, lo, hi) if lo == -hi else "false",
                                  "%d => %s" % (r, val)))
        for variant, arms in _match_arms(src, "%s_mantissa_limit" % ty):
            for r, val in arms:
                r = int(r)
                k = int(val)
                facts.append(("%s_mantissa_limit[%s](%d)" % (ty, variant, r), "pw(%d, %d) <= pw(2, %d)" % (r, k, p),
                              "%d => %s" % (r, val)))
    for bits in (32, 64):
        for variant, arms in _match_arms(src, "u%d_power_limit" % bits):
            for r, val in arms:
                r = int(r)
                k = int(val)
                facts.append(("u%d_power_limit[%s](%d)" % (bits, variant, r), "pw(%d, %d) <= pw(2, %d) - 1" % (r, k, bits),
                              "%d => %s" % (r, val)))
    return facts, ["lexical-parse-float::limits::{f32,f64}_exponent_limit", "lexical-parse-float::limits::{f32,f64}_mantissa_limit",
                   "lexical-parse-float::limits::{u32,u64}_power_limit"], ""


@gen("pf-lemire-table")
def pf_lemire():
    """POWER_OF_FIVE_128[q - SMALLEST] equals the Eisel-Lemire 128-bit truncated power of five (etc/lemire_table.py)."""
    src = _read("lexical-parse-float/src/table_lemire.rs")
    smallest = int(re.search(r'pub const SMALLEST_POWER_OF_FIVE: i32 = (-?\d+);', src).group(1))
    largest = int(re.search(r'pub const LARGEST_POWER_OF_FIVE: i32 = (-?\d+);', src).group(1))
    m = re.search(r'pub static POWER_OF_FIVE_128: \[\(u64, u64\); N_POWERS_OF_FIVE\] = \[(.*?)\n\];', src, re.S)
    rows = re.findall(r'\(\s*(0x[0-9a-fA-F_]+)\s*,\s*(0x[0-9a-fA-F_]+)\s*\)\s*,', _strip_comments(m.group(1)))
    facts = [("POWER_OF_FIVE_128::len", "%d == %d - (%d) + 1 && %d == -342 && %d == 308" % (len(rows), largest, smallest, smallest, largest),
              "SMALLEST=%d LARGEST=%d rows=%d" % (smallest, largest, len(rows)))]
    for i, (hi, lo) in enumerate(rows):
        q = smallest + i
        T = "mk(%s, %s)" % (hi, lo)
        rng = "pw(2, 127) <= %s && %s < pw(2, 128)" % (T, T)
        if q >= 0:
            p5 = 5 ** q
            s = 127 - (p5.bit_length() - 1)
            if s >= 0:
                fact = "%s && %s == pw(5, %d) * pw(2, %d)" % (rng, T, q, s)
            else:
                fact = "%s && %s == pw(5, %d) / pw(2, %d)" % (rng, T, q, -s)
        else:
            n = -q
            p5 = 5 ** n
            z = (p5 - 1).bit_length()  # smallest z with 2^z >= 5^n
            if q >= -27:
                b = z + 127
                fact = "%s && pw(2, %d) >= pw(5, %d) && pw(2, %d) < pw(5, %d) && %s == pw(2, %d) / pw(5, %d) + 1" % (
                    rng, z, n, z - 1, n, T, b, n)
            else:
                b = 2 * z + 128
                c = 2 ** b // p5 + 1
                t = max(0, c.bit_length() - 128)
                fact = "%s && pw(2, %d) >= pw(5, %d) && pw(2, %d) < pw(5, %d) && %s == (pw(2, %d) / pw(5, %d) + 1) / pw(2, %d)" % (
                    rng, z, n, z - 1, n, T, b, n, t)
        facts.append(("POWER_OF_FIVE_128[%d] (5^%d)" % (i, q), fact, "(%s, %s), // 5^%d" % (hi, lo, q)))
    return facts, ["lexical-parse-float::table_lemire::POWER_OF_FIVE_128 (all rows)"], ""


def _int_list(body):
    return [x.strip() for x in _strip_comments(body).replace("\n", " ").split(",") if x.strip()]


@gen("pf-int-powers")
def pf_int_powers():
    """SMALL_INT_POW{r}[i] == r^i for every i; LARGE_POW{r} limbs == r^LARGE_POW{r}_STEP (64-bit limbs)."""
    facts = []
    for rel in ("lexical-parse-float/src/table_decimal.rs", "lexical-parse-float/src/table_binary.rs",
                "lexical-parse-float/src/table_radix.rs"):
        src = _read(rel)
        for m in re.finditer(r'pub const SMALL_INT_POW(\d+): \[u64; (\d+)\] = \[(.*?)\];', src, re.S):
            r = int(m.group(1))
            items = _int_list(m.group(3))
            facts.append(("SMALL_INT_POW%d" % r,
                          "({ let s = seq![%s]; s.len() == %s && seq_pows(s, %d, 0, %d) })" % (
                              ", ".join(i + "u64" for i in items), m.group(2), r, len(items)),
                          "%s: [%s, ...] (%d entries)" % (rel, ", ".join(items[:4]), len(items))))
        for m in re.finditer(r'pub const LARGE_POW(\d+): \[u64; (\d+)\] = \[(.*?)\];', src, re.S):
            r = int(m.group(1))
            items = _int_list(m.group(3))
            st = re.search(r'pub const LARGE_POW%d_STEP: u32 = (\d+);' % r, src)
            facts.append(("LARGE_POW%d" % r,
                          "({ let s = seq![%s]; s.len() == %s && limbs_val(s, 0) == pw(%d, %s) })" % (
                              ", ".join(i + "u64" for i in items), m.group(2), r, st.group(1)),
                          "%s: LARGE_POW%d_STEP = %s, limbs [%s, ...]" % (rel, r, st.group(1), items[0])))
    return facts, ["lexical-parse-float::table_{decimal,binary,radix}::SMALL_INT_POW*", "…::LARGE_POW* / LARGE_POW*_STEP"], TBL_PRELUDE
