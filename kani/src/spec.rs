//! Reference specifications (executable, deliberately naive).

/// Digit character for value d < 36.
pub fn digit_char(d: u32) -> u8 {
    if d < 10 { b'0' + d as u8 } else { b'A' + (d - 10) as u8 }
}

/// Value of byte c as a digit in radix r, if any.
pub fn digit_val(c: u8, r: u32) -> Option<u32> {
    let v = match c {
        b'0'..=b'9' => (c - b'0') as u32,
        b'a'..=b'z' => (c - b'a') as u32 + 10,
        b'A'..=b'Z' => (c - b'A') as u32 + 10,
        _ => return None,
    };
    if v < r { Some(v) } else { None }
}

/// Number of digits of v in radix r (1 for zero).
pub fn ndigits(mut v: u128, r: u32) -> usize {
    let mut n = 1;
    while v >= r as u128 { v /= r as u128; n += 1; }
    n
}

/// Canonical numeral of v in radix r written into out[..n]; returns n.
pub fn numeral(v: u128, r: u32, out: &mut [u8; 128]) -> usize {
    let n = ndigits(v, r);
    let mut x = v;
    let mut i = n;
    while i > 0 {
        i -= 1;
        out[i] = digit_char((x % r as u128) as u32);
        x /= r as u128;
    }
    n
}

/// Outcome of the reference left-to-right integer scanner (C04).
#[derive(Clone, Copy, PartialEq, Eq, Debug)]
pub enum Scan {
    /// (negative, magnitude, consumed)
    Ok(bool, u128, usize),
    Empty(usize),
    InvalidDigit(usize),
    Overflow(usize),
    Underflow(usize),
}

/// Reference scanner: `[+-]digits`, '-' only when `signed`; `max_pos` = T::MAX, `max_neg` = |T::MIN| (0 if unsigned).
/// `partial`: stop at the first non-digit instead of reporting InvalidDigit.
pub fn scan_int(b: &[u8], radix: u32, signed: bool, max_pos: u128, max_neg: u128, partial: bool) -> Scan {
    let mut i = 0usize;
    let mut neg = false;
    if i < b.len() && b[i] == b'+' {
        i += 1;
    } else if i < b.len() && b[i] == b'-' && signed {
        neg = true;
        i += 1;
    }
    if i == b.len() {
        return Scan::Empty(i);
    }
    let limit = if neg { max_neg } else { max_pos };
    let mut v: u128 = 0;
    while i < b.len() {
        let d = match digit_val(b[i], radix) {
            Some(d) => d as u128,
            None => {
                return if partial { Scan::Ok(neg, v, i) } else { Scan::InvalidDigit(i) };
            },
        };
        let nv = match v.checked_mul(radix as u128).and_then(|x| x.checked_add(d)) {
            Some(x) if x <= limit => x,
            _ => return if neg { Scan::Underflow(i) } else { Scan::Overflow(i) },
        };
        v = nv;
        i += 1;
    }
    Scan::Ok(neg, v, i)
}


/// Same scanner with a u64 accumulator (cheaper to bit-blast); valid when max_pos, max_neg < 2^63 / radix.
pub fn scan_int64(b: &[u8], radix: u32, signed: bool, max_pos: u64, max_neg: u64, partial: bool) -> Scan {
    let mut i = 0usize;
    let mut neg = false;
    if i < b.len() && b[i] == b'+' {
        i += 1;
    } else if i < b.len() && b[i] == b'-' && signed {
        neg = true;
        i += 1;
    }
    if i == b.len() {
        return Scan::Empty(i);
    }
    let limit = if neg { max_neg } else { max_pos };
    let mut v: u64 = 0;
    while i < b.len() {
        let d = match digit_val(b[i], radix) {
            Some(d) => d as u64,
            None => {
                return if partial { Scan::Ok(neg, v as u128, i) } else { Scan::InvalidDigit(i) };
            },
        };
        // v <= limit < 2^57 so v * radix + d cannot wrap a u64
        let nv = v * radix as u64 + d;
        if nv > limit {
            return if neg { Scan::Underflow(i) } else { Scan::Overflow(i) };
        }
        v = nv;
        i += 1;
    }
    Scan::Ok(neg, v as u128, i)
}

// ---------------------------------------------------------------------------
// C18: documented validity of a packed number format, written from the
// documentation (bit positions are the documented layout).

pub const F_KNOWN_FLAGS: u128 = 0x3ffff | (0x1fff << 32);
pub const F_SEP_FLAGS: u128 = 0x1fff << 32;

pub fn f_sep(f: u128) -> u8 { (f >> 64) as u8 }
pub fn f_prefix(f: u128) -> u8 { (f >> 88) as u8 }
pub fn f_suffix(f: u128) -> u8 { (f >> 96) as u8 }
pub fn f_mradix(f: u128) -> u32 { ((f >> 104) & 0xff) as u32 }
pub fn f_ebase(f: u128) -> u32 { let r = ((f >> 112) & 0xff) as u32; if r == 0 { f_mradix(f) } else { r } }
pub fn f_eradix(f: u128) -> u32 { let r = ((f >> 120) & 0xff) as u32; if r == 0 { f_mradix(f) } else { r } }
fn bit(f: u128, i: u32) -> bool { (f >> i) & 1 == 1 }

pub fn radix_supported(r: u32) -> bool {
    if cfg!(feature = "radix") { r >= 2 && r <= 36 }
    else if cfg!(feature = "power-of-two") { r == 2 || r == 4 || r == 8 || r == 10 || r == 16 || r == 32 }
    else { r == 10 }
}

/// punctuation character (0 = unset): printable/whitespace ASCII, not a sign, not a digit of the widest digit radix
pub fn punct_ok(f: u128, c: u8) -> bool {
    if c == 0 { return true; }
    let ascii = (c >= 0x09 && c <= 0x0d) || (c >= 0x20 && c < 0x7f);
    let r = if f_mradix(f) > f_eradix(f) { f_mradix(f) } else { f_eradix(f) };
    ascii && c != b'+' && c != b'-' && digit_val(c, r).is_none()
}

pub fn spec_format_valid(f: u128) -> bool {
    if !(radix_supported(f_mradix(f)) && radix_supported(f_ebase(f)) && radix_supported(f_eradix(f))) {
        return false;
    }
    let (s, p, x) = (f_sep(f), f_prefix(f), f_suffix(f));
    if cfg!(feature = "format") {
        if !punct_ok(f, s) { return false; }
        if cfg!(feature = "power-of-two") {
            if !punct_ok(f, p) || !punct_ok(f, x) { return false; }
        } else if p != 0 || x != 0 {
            return false;
        }
        // distinct (among the ones that are set; a lone one is always fine)
        let set = (s != 0) as u8 + (p != 0) as u8 + (x != 0) as u8;
        if set >= 2 && (s == p || s == x || p == x) { return false; }
        // contradictory pairs
        if bit(f, 6) && bit(f, 14) { return false; }   // no exponent notation & required exponent notation
        if bit(f, 4) && bit(f, 5) { return false; }    // no positive mantissa sign & required mantissa sign
        if bit(f, 7) && bit(f, 8) { return false; }    // no positive exponent sign & required exponent sign
        if bit(f, 10) && bit(f, 11) { return false; }  // no special & case-sensitive special
        if bit(f, 10) && bit(f, 44) { return false; }  // no special & special digit separator
        // consecutive only together with a position flag, per component
        let int_pos = bit(f, 32) || bit(f, 35) || bit(f, 38);
        let frac_pos = bit(f, 33) || bit(f, 36) || bit(f, 39);
        let exp_pos = bit(f, 34) || bit(f, 37) || bit(f, 40);
        if bit(f, 41) && !int_pos { return false; }
        if bit(f, 42) && !frac_pos { return false; }
        if bit(f, 43) && !exp_pos { return false; }
        true
    } else {
        // without `format` only the default syntax exists
        s == 0 && p == 0 && x == 0 && (f & F_KNOWN_FLAGS) == ((1 << 2) | (1 << 3))
    }
}

/// What `rebuild(f).build_unchecked()` must return: the documented fields of f, unknown bits dropped,
/// the separator character dropped when no separator flag is set.
pub fn format_norm(f: u128) -> u128 {
    // exponent base / exponent radix are stored resolved (0 = "same as the mantissa radix")
    let mut g = f & (F_KNOWN_FLAGS | (0xff << 88) | (0xff << 96) | (0xff << 104));
    g |= (f_ebase(f) as u128) << 112;
    g |= (f_eradix(f) as u128) << 120;
    if f & F_SEP_FLAGS != 0 { g |= f & (0xff << 64); }
    g
}

// ---------------------------------------------------------------------------
// Reference float tokenizer for separator-free input (C10/C11/C12), flags read from the documented bit layout.

#[derive(Clone, Copy, Debug, PartialEq, Eq)]
pub struct Tok {
    pub mantissa: u64,     // value of all integer+fraction digits (wrapping; exact while <= 19 decimal digits)
    pub exponent: i64,     // explicit exponent - fraction digits (in units of the exponent base)
    pub n_int: usize,
    pub n_frac: usize,
    pub has_dot: bool,
    pub has_exp: bool,
    pub end: usize,        // bytes consumed (relative to the start of `b`)
}

fn eq_ci(a: u8, b: u8) -> bool { a.to_ascii_lowercase() == b.to_ascii_lowercase() }

/// `b` starts AFTER the mantissa sign (the sign is handled by the caller, as in the real entry points).
/// Returns None when the documented grammar for `f` does not derive a (prefix of) `b`.
pub fn tok_ref(b: &[u8], f: u128, dp: u8, ec: u8) -> Option<Tok> {
    let radix = f_mradix(f);
    let ebase = f_ebase(f);
    let eradix = f_eradix(f);
    let fmt = cfg!(feature = "format");
    let flag = |i: u32| fmt && bit(f, i);
    let req_int = flag(0); let req_frac = flag(1); let req_expd = bit(f, 2); let req_mant = bit(f, 3);
    let no_exp = flag(6); let no_pos_exp = flag(7); let req_exp_sign = flag(8); let no_exp_wo_frac = flag(9);
    let no_float_lz = flag(13); let req_exp = flag(14); let cs_exp = flag(15);
    let mut i = 0usize;
    let mut m: u64 = 0;
    let mut n_int = 0usize;
    while i < b.len() {
        match digit_val(b[i], radix) { Some(d) => { m = m.wrapping_mul(radix as u64).wrapping_add(d as u64); n_int += 1; i += 1; }, None => break }
    }
    if req_int && n_int == 0 { return None; }
    if no_float_lz && n_int > 1 && b[0] == b'0' { return None; }
    let mut n_frac = 0usize;
    let has_dot = i < b.len() && b[i] == dp;
    if has_dot {
        i += 1;
        while i < b.len() {
            match digit_val(b[i], radix) { Some(d) => { m = m.wrapping_mul(radix as u64).wrapping_add(d as u64); n_frac += 1; i += 1; }, None => break }
        }
        if req_frac && n_frac == 0 { return None; }
    }
    if req_mant && n_int + n_frac == 0 { return None; }
    let has_exp = i < b.len() && (if cs_exp { b[i] == ec } else { eq_ci(b[i], ec) });
    let mut e: i64 = 0;
    if has_exp {
        if no_exp { return None; }
        if no_exp_wo_frac && !has_dot { return None; }
        i += 1;
        let mut eneg = false;
        if i < b.len() && b[i] == b'+' { if no_pos_exp { return None; } i += 1; }
        else if i < b.len() && b[i] == b'-' { eneg = true; i += 1; }
        else if req_exp_sign { return None; }
        let mut ne = 0usize;
        while i < b.len() {
            match digit_val(b[i], eradix) { Some(d) => { if e < 0x10000000 { e = e * eradix as i64 + d as i64; } ne += 1; i += 1; }, None => break }
        }
        if req_expd && ne == 0 { return None; }
        if eneg { e = -e; }
    } else if req_exp {
        return None;
    }
    // implicit exponent: one mantissa digit is log2(radix)/log2(base) exponent units when the bases differ
    let scale: i64 = if radix == ebase { 1 } else { (ilog2(radix) / ilog2(ebase)) as i64 };
    let exponent = e - (n_frac as i64) * scale;
    Some(Tok { mantissa: m, exponent, n_int, n_frac, has_dot, has_exp, end: i })
}

pub fn ilog2(x: u32) -> u32 { 31 - x.leading_zeros() }
