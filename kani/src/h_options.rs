//! C18 (options side): punctuation options and the parse-float `OptionsBuilder` are valid exactly under the documented
//! constraints; parsing with invalid punctuation returns the configuration error (never a value, never a panic).
use crate::spec;
use crate::vk::{any, assume, cover};
use crate::vcheck;
use lexical_parse_float::{FromLexicalWithOptions, Options};
use lexical_util::format::is_valid_options_punctuation;

/// documented: both mandatory control characters are set, valid punctuation for the format (ASCII, not a sign, not a digit
/// of the widest radix), distinct from each other and from the format's own punctuation characters
pub fn spec_punctuation_valid(f: u128, exponent: u8, decimal_point: u8) -> bool {
    if exponent == 0 || decimal_point == 0 { return false; }
    if !spec::punct_ok(f, exponent) || !spec::punct_ok(f, decimal_point) { return false; }
    if exponent == decimal_point { return false; }
    if cfg!(feature = "format") {
        let (s, p, x) = (spec::f_sep(f), spec::f_prefix(f), spec::f_suffix(f));
        if s == exponent || s == decimal_point || p == exponent || p == decimal_point || x == exponent || x == decimal_point { return false; }
    }
    true
}

fn is_letter(c: u8) -> bool { (c >= b'a' && c <= b'z') || (c >= b'A' && c <= b'Z') }
fn letters(s: &[u8]) -> bool { let mut i = 0; while i < s.len() { if !is_letter(s[i]) { return false; } i += 1; } true }
fn valid_ascii(c: u8) -> bool { (c >= 0x09 && c <= 0x0d) || (c >= 0x20 && c < 0x7f) }

/// documented constraints of the parse-float options
pub fn spec_parse_options_valid(exponent: u8, decimal_point: u8, nan: Option<&[u8]>, inf: Option<&[u8]>, infinity: Option<&[u8]>) -> bool {
    if !valid_ascii(exponent) || !valid_ascii(decimal_point) { return false; }
    if let Some(n) = nan { if n.is_empty() || n.len() > 50 || !(n[0] == b'N' || n[0] == b'n') || !letters(n) { return false; } }
    if inf.is_some() && infinity.is_none() { return false; }
    if let Some(i) = inf {
        if i.is_empty() || i.len() > 50 || !(i[0] == b'I' || i[0] == b'i') || !letters(i) { return false; }
        if let Some(l) = infinity { if i.len() > l.len() { return false; } }
    }
    if let Some(l) = infinity {
        if l.is_empty() || l.len() > 50 || !(l[0] == b'I' || l[0] == b'i') || !letters(l) { return false; }
        if let Some(i) = inf { if l.len() < i.len() { return false; } }
    }
    true
}

/// documented constraints of the write-float options (special strings: 1..=50 ASCII letters starting with N/n resp. I/i)
pub fn spec_write_options_valid(exponent: u8, decimal_point: u8, nan: Option<&[u8]>, inf: Option<&[u8]>) -> bool {
    if !valid_ascii(exponent) || !valid_ascii(decimal_point) { return false; }
    if let Some(n) = nan { if n.is_empty() || n.len() > 50 || !(n[0] == b'N' || n[0] == b'n') || !letters(n) { return false; } }
    if let Some(i) = inf { if i.is_empty() || i.len() > 50 || !(i[0] == b'I' || i[0] == b'i') || !letters(i) { return false; } }
    true
}

/// a 'static byte string with symbolic content and length <= 3 (None / empty / 1..3 bytes)
fn sym_str() -> Option<&'static [u8]> {
    let kind: u8 = any();
    assume(kind <= 4);
    if kind == 4 { return None; }
    let bytes: [u8; 3] = any();
    let mut i = 0;
    while i < 3 { let c = bytes[i]; assume(c == b'N' || c == b'n' || c == b'I' || c == b'i' || c == b'a' || c == b'Z' || c == b'1' || c == b' ' || c == b'@' || c == b'[' || c == b'`' || c == b'{' || c == 0x80 || c == 0xC1 || c == 0xE9); i += 1; }
    let s: &'static [u8; 3] = Box::leak(Box::new(bytes));
    Some(&s[..kind as usize])
}

crate::harnesses! {
    /// is_valid_letter / is_valid_ascii for every byte value (the option validators are built on them; the unchecked UTF-8
    /// conversion in lexical::to_string rests on "special strings are ASCII letters").
    /// @prop C18 C17
    /// @feat default radix_format
    /// @fn lexical-util::ascii::{is_valid_letter, is_valid_ascii}
    /// @timeout 600
    fn ascii_classifiers_all_bytes() {
        let c: u8 = any();
        vcheck!(lexical_util::ascii::is_valid_letter(c) == is_letter(c), "is_valid_letter(c) <=> c is an ASCII letter");
        vcheck!(lexical_util::ascii::is_valid_ascii(c) == valid_ascii(c), "is_valid_ascii(c) <=> printable ASCII or \\t..\\r");
    }

    /// write-float OptionsBuilder::is_valid == documented constraints (exponent / decimal point bytes, special strings <= 3 bytes
    /// incl. non-ASCII bytes); every emitted special string of a valid configuration is ASCII.
    /// @prop C18 C17
    /// @feat default radix_format
    /// @bound special strings of length <= 3 over {N n I i a Z 1 space @ [ ` { 0x80 0xC1 0xE9}
    /// @fn lexical-write-float::options::OptionsBuilder::{is_valid, nan_str_is_valid, inf_str_is_valid}
    /// @timeout 1200
    #[cfg_attr(kani, kani::unwind(5))]
    fn write_float_options_valid_iff_spec() {
        let e: u8 = any();
        let d: u8 = any();
        let (nan, inf) = (sym_str(), sym_str());
        let b = lexical_write_float::Options::builder().exponent(e).decimal_point(d).nan_string(nan).inf_string(inf);
        let want = spec_write_options_valid(e, d, nan, inf);
        vcheck!(b.is_valid() == want, "write OptionsBuilder::is_valid <=> documented constraints");
        cover(want);
        cover(!want);
    }

    /// is_valid_options_punctuation(format, exponent, decimal_point) for every packed format and every pair of bytes.
    /// @prop C18
    /// @feat default radix_format
    /// @fn lexical-util::format_flags::is_valid_options_punctuation
    /// @fn lexical-util::format_flags::{is_valid_control, is_valid_optional_control, is_valid_optional_control_radix}
    /// @timeout 900
    fn options_punctuation_valid_iff_spec() {
        let f: u128 = any();
        let e: u8 = any();
        let d: u8 = any();
        assume(spec::f_mradix(f) <= 36 && spec::f_eradix(f) <= 36);
        vcheck!(is_valid_options_punctuation(f, e, d) == spec_punctuation_valid(f, e, d), "punctuation options valid <=> documented constraints");
        cover(is_valid_options_punctuation(f, e, d));
    }

    /// parse-float OptionsBuilder::is_valid == documented constraints: every exponent / decimal point byte, special strings up to
    /// 3 bytes (None, empty, wrong first letter, non-letters, inf longer than infinity).
    /// @prop C18 C15
    /// @feat default radix_format
    /// @bound special strings of length <= 3 over {N n I i a Z 1 space @ [ ` { 0x80 0xC1 0xE9}
    /// @fn lexical-parse-float::options::OptionsBuilder::{is_valid, nan_str_is_valid, inf_str_is_valid, infinity_string_is_valid}
    /// @fn lexical-parse-float::options::Options::is_valid
    /// @timeout 1200
    #[cfg_attr(kani, kani::unwind(5))]
    fn parse_float_options_valid_iff_spec() {
        let e: u8 = any();
        let d: u8 = any();
        let lossy: bool = any();
        let (nan, inf, infinity) = (sym_str(), sym_str(), sym_str());
        let b = Options::builder().exponent(e).decimal_point(d).lossy(lossy).nan_string(nan).inf_string(inf).infinity_string(infinity);
        let want = spec_parse_options_valid(e, d, nan, inf, infinity);
        vcheck!(b.is_valid() == want, "OptionsBuilder::is_valid <=> documented constraints");
        let o = b.build_unchecked();
        vcheck!(o.is_valid() == want, "Options::is_valid agrees with the builder");
        vcheck!(o.exponent() == e && o.decimal_point() == d && o.lossy() == lossy, "getters reflect the setters");
        cover(want);
        cover(!want);
    }

    /// parsing with punctuation options the format does not allow returns an error (no value, no panic).
    /// @prop C18 C10
    /// @tier deep
    /// @mem 12
    /// @feat default radix_format
    /// @bound input "1" followed by two symbolic bytes
    /// @fn lexical-parse-float::api (is_valid_options_punctuation check at entry)
    /// @timeout 3600
    #[cfg_attr(kani, kani::unwind(6))]
    fn parse_invalid_punctuation_is_an_error() {
        const F: u128 = lexical_util::format::STANDARD;
        let e: u8 = any();
        let d: u8 = any();
        let tail: [u8; 2] = any();
        let o = Options::builder().exponent(e).decimal_point(d).build_unchecked();
        let input = [b'1', tail[0], tail[1]];
        let r = f64::from_lexical_with_options::<F>(&input, &o);
        if !spec_punctuation_valid(F, e, d) { vcheck!(r.is_err(), "invalid punctuation options never yield a value"); }
        cover(r.is_ok());
    }
}
