//! Developer aid: the fixed-q Lemire harness oracle (h_lemire::is_rne_f32) against the real compute_float, every w < 2^24.
use lexical_parse_float::lemire::compute_float;
use lexverif::h_lemire::{is_rne_f32, pow10};
fn main() {
    let mut bad = 0u64; let mut errs = 0u64;
    for q in [-17i64, -5, 0, 5, 10, 11] {
        for w in 1u64..(1 << 16) {
            let fp = compute_float::<f32>(q, w, false);
            if fp.exp >= 0 {
                let (num, den) = if q >= 0 { (w as u128 * pow10(q as u32), 1u128) } else { (w as u128, pow10((-q) as u32)) };
                if !is_rne_f32(fp.mant, fp.exp, num, den) { bad += 1; if bad < 10 { println!("q={q} w={w}: ({}, {})", fp.mant, fp.exp); } }
            } else { errs += 1; }
        }
    }
    println!("sweep_lemire_q: bad = {bad}, error-marked (inconclusive) = {errs}");
    std::process::exit(if bad > 0 { 1 } else { 0 });
}
