//! PF10: the float tokenizer `parse_number` against the reference tokenizer `tok_ref` (separator-free input).
use crate::spec;
use crate::vk::{any, assume, cover};
use crate::vcheck;
use lexical_parse_float::number::Number;
use lexical_parse_float::parse::{parse_complete_number, parse_partial_number};
use lexical_parse_float::Options;
use lexical_util::iterator::AsBytes;

/// Compare the real tokenizer with the reference on `s` for packed format F. Returns false on disagreement.
pub fn cmp_tok<const F: u128>(s: &[u8], opts: &Options) -> Result<(), &'static str> {
    if s.is_empty() { return Ok(()); }    // the entry points never call the tokenizer on empty input
    let dp = opts.decimal_point();
    let ec = opts.exponent();
    let r = spec::tok_ref(s, F, dp, ec);
    let rc = parse_complete_number::<F>(s.bytes::<F>(), false, opts);
    let rp = parse_partial_number::<F>(s.bytes::<F>(), false, opts);
    match (rp, r) {
        (Ok((num, cnt)), Some(t)) => {
            if cnt != t.end { return Err("partial: consumed count == end of the longest derivable prefix"); }
            if cnt > s.len() { return Err("partial: count <= len"); }
            if t.n_int + t.n_frac <= 19 {
                if num.mantissa != t.mantissa { return Err("mantissa == value of the integer+fraction digits"); }
                if num.mantissa != 0 && num.exponent != t.exponent { return Err("exponent == explicit exponent - fraction digits"); }
                if num.many_digits { return Err("many_digits only beyond 19 digits"); }
            }
            if num.integer.len() != t.n_int { return Err("integer digit slice == the integer digits"); }
            match num.fraction { Some(fr) => { if !t.has_dot || fr.len() != t.n_frac { return Err("fraction digit slice == the fraction digits"); } },
                                 None => if t.has_dot { return Err("fraction slice present iff decimal point present"); } }
        },
        (Err(e), None) => { if let Some(i) = e.index() { if *i > s.len() { return Err("error index <= len"); } } },
        (Ok(_), None) => return Err("partial tokenizer accepted an input the grammar rejects"),
        (Err(_), Some(_)) => return Err("partial tokenizer rejected an input the grammar derives"),
    }
    match (rc, r) {
        (Ok(num), Some(t)) => {
            if t.end != s.len() { return Err("complete: accepted although bytes remain"); }
            if t.n_int + t.n_frac <= 19 && (num.mantissa != t.mantissa || (num.mantissa != 0 && num.exponent != t.exponent)) { return Err("complete: value"); }
        },
        (Err(e), Some(t)) => { if t.end == s.len() { return Err("complete tokenizer rejected an input the grammar derives"); }
                               if let Some(i) = e.index() { if *i > s.len() { return Err("error index <= len"); } } },
        (Err(e), None) => { if let Some(i) = e.index() { if *i > s.len() { return Err("error index <= len"); } } },
        (Ok(_), None) => return Err("complete tokenizer accepted an input the grammar rejects"),
    }
    Ok(())
}

macro_rules! tok_body {
    ($F:expr, $L:expr, $alpha:expr) => {{
        const F: u128 = $F;
        let bytes: [u8; $L] = any();
        let len: usize = any();
        assume(len <= $L);
        if $alpha == 1 {
            let mut i = 0;
            while i < $L {
                let c = bytes[i];
                assume((c >= b'0' && c <= b'9') || c == b'+' || c == b'-' || c == b'e' || c == b'E' || c == b'.' || c == b'a' || c == b'_');
                i += 1;
            }
        }
        let opts = Options::new();
        let r = cmp_tok::<F>(&bytes[..len], &opts);
        vcheck!(r.is_ok(), "tokenizer == reference grammar (accept/reject, count, mantissa, exponent, digit slices)");
        cover(len == $L);
    }};
}

crate::harnesses! {
    /// parse_number::<STANDARD> (complete and partial) == reference tokenizer; all byte strings len <= 4.
    /// @prop C10 C11 C12 C01 C16
    /// @feat default compact radix_format
    /// @bound input length <= 4 bytes (all byte values)
    /// @fn lexical-parse-float::parse::parse_number
    /// @fn lexical-parse-float::parse::parse_complete_number
    /// @fn lexical-parse-float::parse::parse_partial_number
    /// @fn lexical-parse-float::parse::parse_digits
    /// @timeout 1500
    #[cfg_attr(kani, kani::unwind(7))]
    fn tok_standard_len4() { tok_body!(lexical_util::format::STANDARD, 4, 0) }

    /// @tier thorough
    /// parse_number::<STANDARD> == reference tokenizer; strings len <= 6 over {0-9 + - e E . a _}.
    /// @prop C10 C11 C12 C01 C16
    /// @feat default compact radix_format
    /// @bound input length <= 6 bytes over the number alphabet {0-9 + - e E . a _}
    /// @fn lexical-parse-float::parse::parse_number
    /// @timeout 1500
    #[cfg_attr(kani, kani::unwind(9))]
    fn tok_standard_alpha_len6() { tok_body!(lexical_util::format::STANDARD, 6, 1) }

    /// long exponents, cheap shape: "1e-" + one symbolic digit + 19 digits '9' (20 digits overflow i64 if accumulated):
    /// the exponent accumulation stops at the saturation threshold (no i64 overflow, no panic), the input is consumed.
    /// @prop C10 C01 C11~
    /// @feat default radix_format
    /// @bound inputs of the shape 1e-[0-9]9{19}
    /// @fn lexical-parse-float::parse::parse_number (exponent accumulation saturating at 0x10000000)
    /// @timeout 900
    #[cfg_attr(kani, kani::unwind(24))]
    fn tok_exponent_saturates() {
        const F: u128 = lexical_util::format::STANDARD;
        let d: u8 = any();
        assume(d >= b'0' && d <= b'9');
        let mut buf = [b'9'; 23];
        buf[0] = b'1'; buf[1] = b'e'; buf[2] = b'-'; buf[3] = d;
        let opts = Options::new();
        let r = lexical_parse_float::parse::parse_complete_number::<F>(buf.bytes::<F>(), false, &opts);
        vcheck!(r.is_ok(), "a 20-digit exponent is accepted");
        if let Ok(num) = r {
            vcheck!(num.mantissa == 1, "mantissa of 1e<digits>");
            vcheck!(num.exponent <= -0x10000000, "negative 20-digit exponent saturates below -2^28");
        }
    }

    /// long exponents: "1e" + optional sign + 21 symbolic digits: no overflow/panic, saturating exponent, count == len.
    /// @prop C10 C01 C11
    /// @tier deep
    /// @mem 28
    /// @feat default radix_format
    /// @bound inputs of the shape 1e[+-]?[0-9]{21} (exponent digits symbolic)
    /// @fn lexical-parse-float::parse::parse_number (exponent accumulation saturating at 0x10000000)
    /// @timeout 5400
    #[cfg_attr(kani, kani::unwind(26))]
    fn tok_long_exponent() {
        const F: u128 = lexical_util::format::STANDARD;
        let ds: [u8; 21] = any();
        let sign: u8 = any();
        assume(sign <= 2);
        let mut buf = [0u8; 24];
        buf[0] = b'1'; buf[1] = b'e';
        let mut n = 2;
        if sign == 1 { buf[2] = b'+'; n = 3; } else if sign == 2 { buf[2] = b'-'; n = 3; }
        let mut i = 0;
        while i < 21 { assume(ds[i] >= b'0' && ds[i] <= b'9'); buf[n + i] = ds[i]; i += 1; }
        let opts = Options::new();
        let r = cmp_tok::<F>(&buf[..n + 21], &opts);
        vcheck!(r.is_ok(), "long exponent: tokenizer == reference (saturating exponent), no panic");
        cover(sign == 2);
    }
}
