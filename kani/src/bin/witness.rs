//! Native witnesses: run the real code on a concrete failing input of a recorded finding.
//! `witness <name>`; exit 1 = finding reproduces, 0 = does not reproduce.
#[cfg(kani)]
fn main() {}
#[cfg(not(kani))]
fn main() {
    let name = std::env::args().nth(1).unwrap_or_default();
    let code = match name.as_str() {
        // F1: 8.55e21 lies on the closed left endpoint of the rounding interval of its successor-shaped float
        "f1" => {
            let mut bad = 0;
            for (bits, want) in [(0x447cf7f15f42895eu64, "8.55e21")] {
                let f = f64::from_bits(bits);
                let s = lexical_core::BUFFER_SIZE;
                let mut buf = vec![0u8; s];
                let out = lexical_core::write(f, &mut buf);
                let got = std::str::from_utf8(out).unwrap().to_string();
                let rt: f64 = want.parse().unwrap();
                println!("bits={bits:#x} lexical={got} shortest={want} (std parses {want} back to the same bits: {})", rt.to_bits() == bits);
                if got != want && rt.to_bits() == bits { bad += 1; }
            }
            bad
        },
        // F3: separators enabled for the integer only; a separator-free input with >= 8 fraction digits was mis-scaled
        #[cfg(feature = "format")]
        "f3" => {
            use core::num::NonZeroU8;
            const F: u128 = lexical_core::NumberFormatBuilder::new().digit_separator(NonZeroU8::new(b'_')).integer_internal_digit_separator(true).build_strict();
            let opts = lexical_core::ParseFloatOptions::new();
            let r = lexical_core::parse_with_options::<f64, F>(b"1.123456789", &opts);
            println!("parse_with_options::<f64, integer-internal-separator format>(b\"1.123456789\") = {r:?} (expected Ok(1.123456789))");
            if r == Ok(1.123456789) { 0 } else { 1 }
        },
        _ => { eprintln!("unknown witness"); 2 },
    };
    std::process::exit(if code > 0 { 1 } else { 0 });
}
