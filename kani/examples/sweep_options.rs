//! Developer aid: reference specs of h_options vs the real validators.
use lexverif::h_options::*;
use lexical_parse_float::Options;
use lexical_util::format::is_valid_options_punctuation;
fn main() {
    let mut x = 0x9E3779B97F4A7C15u64; let mut rnd = || { x ^= x << 13; x ^= x >> 7; x ^= x << 17; x };
    let (mut n, mut bad) = (0u64, 0u64);
    for it in 0..3000u64 {
        let mut f = ((rnd() as u128) << 64) | rnd() as u128;
        // plausible radices / punctuation
        let r = [2u128, 10, 16, 36, 8, 3][(it % 6) as usize]; let er = [0u128, 10, 16, 2][(it % 4) as usize];
        f &= !(0xffffffu128 << 104); f |= r << 104; f |= er << 120;
        if it % 3 == 0 { f &= !(0xffu128 << 64); f |= (b'_' as u128) << 64; }
        for e in 0..=255u8 { for d in [0u8, b'.', b',', b'e', b'_', b'+', b'9', b'A', b'z', 0x7f, 0x80, e] {
            n += 1;
            if is_valid_options_punctuation(f, e, d) != spec_punctuation_valid(f, e, d) { bad += 1; if bad < 6 { println!("  punct f={f:#x} e={e} d={d}: real {}", is_valid_options_punctuation(f, e, d)); } }
        } }
    }
    println!("punctuation: {n} cases, {bad} disagreements");
    let alpha: [&'static [u8]; 12] = [b"N", b"n", b"I", b"i", b"a", b"Z", b"1", b" ", b"\x80", b"\xC1", b"\xE9", b"["];
    let mut strs: Vec<Option<&'static [u8]>> = vec![None, Some(b"")];
    for a in alpha { strs.push(Some(a)); for b in alpha { let v: &'static [u8] = Box::leak([a, b].concat().into_boxed_slice()); strs.push(Some(v)); for c in [b"f" as &[u8], b"N", b"1"] { let v: &'static [u8] = Box::leak([a, b, c].concat().into_boxed_slice()); strs.push(Some(v)); } } }
    let long: &'static [u8] = Box::leak(vec![b'n'; 51].into_boxed_slice()); strs.push(Some(long));
    let long50: &'static [u8] = Box::leak(vec![b'i'; 50].into_boxed_slice()); strs.push(Some(long50));
    let (mut n2, mut bad2) = (0u64, 0u64);
    for &nan in &strs { for &inf in &strs { for &infinity in strs.iter().step_by(3) { for (e, d) in [(b'e', b'.'), (0u8, b'.'), (b'e', 0x7f), (0x80, b','), (9, 13)] {
        n2 += 1;
        let b = Options::builder().exponent(e).decimal_point(d).nan_string(nan).inf_string(inf).infinity_string(infinity);
        if b.is_valid() != spec_parse_options_valid(e, d, nan, inf, infinity) { bad2 += 1; if bad2 < 6 { println!("  opts e={e} d={d} nan={nan:?} inf={inf:?} infinity={infinity:?}: real {}", b.is_valid()); } }
    } } } }
    println!("parse-float options: {n2} cases, {bad2} disagreements");
    let (mut n3, mut bad3) = (0u64, 0u64);
    for &nan in &strs { for &inf in &strs { for (e, d) in [(b'e', b'.'), (0u8, b'.'), (b'e', 0x7f), (0x80, b','), (9, 13)] {
        n3 += 1;
        let b = lexical_write_float::Options::builder().exponent(e).decimal_point(d).nan_string(nan).inf_string(inf);
        if b.is_valid() != spec_write_options_valid(e, d, nan, inf) { bad3 += 1; if bad3 < 6 { println!("  wopts e={e} d={d} nan={nan:?} inf={inf:?}: real {}", b.is_valid()); } }
    } } }
    println!("write-float options: {n3} cases, {bad3} disagreements");
    let mut bad4 = 0; for c in 0..=255u8 { if lexical_util::ascii::is_valid_letter(c) != c.is_ascii_alphabetic() { bad4 += 1; } }
    println!("is_valid_letter: 256 bytes, {bad4} disagreements");
}
