//! U4/U5/U6/U8: lexical-util kernels, full domains.
use crate::spec;
use crate::vk::{any, assume, cover};
use crate::vcheck;
use lexical_util::digit;
use lexical_util::error::Error;
use lexical_util::format as fmt;

crate::harnesses! {
    /// char_to_digit_const / char_to_digit / char_is_digit* == reference digit_val for all (byte, radix 2..=36).
    /// @prop C04 C05 C10 C12
    /// @feat default radix
    /// @fn lexical-util::digit::char_to_digit_const
    /// @fn lexical-util::digit::char_to_digit
    /// @fn lexical-util::digit::char_to_valid_digit_const
    fn util_char_to_digit_all() {
        let c: u8 = any();
        let r: u32 = any();
        assume(r >= 2 && r <= 36);
        let e = spec::digit_val(c, r);
        vcheck!(digit::char_to_digit_const(c, r) == e, "char_to_digit_const == digit_val");
        vcheck!(digit::char_to_digit(c, r) == e, "char_to_digit == digit_val");
        vcheck!(digit::char_is_digit_const(c, r) == e.is_some(), "char_is_digit_const");
        vcheck!(digit::char_is_digit(c, r) == e.is_some(), "char_is_digit");
        if let Some(d) = e {
            vcheck!(digit::char_to_valid_digit_const(c, r) == d, "char_to_valid_digit_const on valid digits");
        }
        cover(e.is_some() && r == 36);
    }

    /// digit_to_char / digit_to_char_const produce 0-9A-Z and invert char_to_digit, all (digit < radix, radix).
    /// @prop C03 C06 C08
    /// @feat default radix
    /// @fn lexical-util::digit::digit_to_char
    /// @fn lexical-util::digit::digit_to_char_const
    fn util_digit_to_char_all() {
        let d: u32 = any();
        let r: u32 = any();
        assume(r >= 2 && r <= 36 && d < r);
        let e = spec::digit_char(d);
        vcheck!(digit::digit_to_char(d) == e, "digit_to_char == 0-9A-Z");
        vcheck!(digit::digit_to_char_const(d, r) == e, "digit_to_char_const == 0-9A-Z");
        vcheck!(spec::digit_val(e, r) == Some(d), "round trip through digit_val");
        cover(d == 35);
    }
}
