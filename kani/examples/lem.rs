use lexical_parse_float::lemire::compute_float;
fn main() {
    for (q, w) in [(-256i64, 1u64 << 63), (304, 18253476135101533867u64)] {
        let a = compute_float::<f64>(q, w, false);
        println!("q={q} w={w:#x} -> mant={:#x} exp={} (exp-INVALID={})", a.mant, a.exp, a.exp - (i16::MIN as i32));
    }
}
