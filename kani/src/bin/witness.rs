//! Native witnesses: run the real code on a concrete failing input of a recorded finding.
//! `witness <name>`; exit 1 = finding reproduces, 0 = does not reproduce.
#[cfg(kani)]
fn main() {}
#[cfg(not(kani))]
fn main() {
    let name = std::env::args().nth(1).unwrap_or_default();
    let code = match name.as_str() {
        // F1: 8.55e21 lies on the closed left endpoint of the rounding interval of its successor-shaped float
        "f1" => {
            let mut bad = 0;
            for (bits, want) in [(0x447cf7f15f42895eu64, "8.55e21")] {
                let f = f64::from_bits(bits);
                let s = lexical_core::BUFFER_SIZE;
                let mut buf = vec![0u8; s];
                let out = lexical_core::write(f, &mut buf);
                let got = std::str::from_utf8(out).unwrap().to_string();
                let rt: f64 = want.parse().unwrap();
                println!("bits={bits:#x} lexical={got} shortest={want} (std parses {want} back to the same bits: {})", rt.to_bits() == bits);
                if got != want && rt.to_bits() == bits { bad += 1; }
            }
            bad
        },
        // F3: separators enabled for the integer only; a separator-free input with >= 8 fraction digits was mis-scaled
        #[cfg(feature = "format")]
        "f3" => {
            use core::num::NonZeroU8;
            const F: u128 = lexical_core::NumberFormatBuilder::new().digit_separator(NonZeroU8::new(b'_')).integer_internal_digit_separator(true).build_strict();
            let opts = lexical_core::ParseFloatOptions::new();
            let r = lexical_core::parse_with_options::<f64, F>(b"1.123456789", &opts);
            println!("parse_with_options::<f64, integer-internal-separator format>(b\"1.123456789\") = {r:?} (expected Ok(1.123456789))");
            if r == Ok(1.123456789) { 0 } else { 1 }
        },
        // F4: buffer_size_const ignored the fixed-size scratch the decimal integer writers need (10 bytes for the exponent,
        // 20 for the digits): writing into a buffer of exactly the documented size panicked.
        "f4" => {
            use core::num::{NonZeroI32, NonZeroUsize};
            const F: u128 = lexical_core::format::STANDARD;
            let mut bad = 0;
            for (mind, maxd, nb, pb, v) in [(100usize, 0usize, -4i32, 4i32, 1.5e10f64), (0, 1, -50, 13, -2.747146701520022e-44)] {
                let o = lexical_core::WriteFloatOptions::builder().min_significant_digits(NonZeroUsize::new(mind)).max_significant_digits(NonZeroUsize::new(maxd))
                    .negative_exponent_break(NonZeroI32::new(nb)).positive_exponent_break(NonZeroI32::new(pb)).build().unwrap();
                let n = o.buffer_size_const::<f64, F>();
                let o2 = o.clone();
                let r = std::panic::catch_unwind(move || { let mut b = vec![0u8; n]; lexical_core::write_with_options::<f64, F>(v, &mut b, &o2).len() });
                println!("min_digits={mind} max_digits={maxd} breaks=({nb},{pb}) buffer_size_const={n} write({v:e}) -> {:?}", r.as_ref().map_err(|_| "PANIC"));
                if r.is_err() { bad += 1; }
            }
            bad
        },
        // F5: slow_binary took one digit more than Number::exponent accounts for (radix 8 with leading digit 1, radix 32 < G)
        #[cfg(feature = "power-of-two")]
        "f5" => {
            const F8: u128 = lexical_core::NumberFormatBuilder::from_radix(8);
            let o = lexical_core::ParseFloatOptions::builder().exponent(b'^').build().unwrap();
            let s = b"1.00000000000000000200001";
            let r = lexical_core::parse_with_options::<f64, F8>(s, &o);
            println!("radix 8: parse({}) = {r:?} (exact value is 1 + 2*8^-18 + 8^-23, correctly rounded: 1.0000000000000002)", String::from_utf8_lossy(s));
            if r == Ok(1.0000000000000002) { 0 } else { 1 }
        },
        // F2: formats whose exponent base differs from the mantissa radix went through the same-radix fast path
        #[cfg(feature = "power-of-two")]
        "f2" => {
            use core::num::NonZeroU8;
            const HEX: u128 = lexical_core::NumberFormatBuilder::new().mantissa_radix(16).exponent_base(NonZeroU8::new(2)).exponent_radix(NonZeroU8::new(10)).build_strict();
            let o = lexical_core::ParseFloatOptions::builder().exponent(b'^').build().unwrap();
            let r = std::panic::catch_unwind(|| lexical_core::parse_with_options::<f64, HEX>(b"1.8^3", &o));
            println!("hex float (radix 16, exponent base 2): parse(\"1.8^3\") = {:?} (expected Ok(12.0))", r.as_ref().map_err(|_| "PANIC"));
            if matches!(r, Ok(Ok(v)) if v == 12.0) { 0 } else { 1 }
        },
        // F8: zero mantissa with an exponent outside the fast-path range reached binary(): shift by 64 / garbage
        #[cfg(feature = "power-of-two")]
        "f8" => {
            const F32_: u128 = lexical_core::NumberFormatBuilder::from_radix(32);
            let o = lexical_core::ParseFloatOptions::builder().exponent(b'^').build().unwrap();
            let r = std::panic::catch_unwind(|| lexical_core::parse_with_options::<f64, F32_>(b"0^77", &o));
            println!("radix 32: parse(\"0^77\") = {:?} (expected Ok(0.0))", r.as_ref().map_err(|_| "PANIC"));
            if matches!(r, Ok(Ok(v)) if v == 0.0) { 0 } else { 1 }
        },
        // F9: values in (1/2, 1) of the smallest subnormal were flushed to zero instead of rounding up
        #[cfg(feature = "power-of-two")]
        "f9" => {
            const F32_: u128 = lexical_core::NumberFormatBuilder::from_radix(32);
            let o = lexical_core::ParseFloatOptions::builder().exponent(b'^').build().unwrap();
            let r = lexical_core::parse_with_options::<f32, F32_>(b"1V^-V", &o);
            println!("radix 32: parse::<f32>(\"1V^-V\") = {r:?} (63 * 2^-155 = 0.98 of the smallest subnormal; expected Ok(1e-45))");
            if r == Ok(f32::from_bits(1)) { 0 } else { 1 }
        },
        // F6 / F7: separator look-around predicates is_ilc (@internal) and is_itc (@first)
        #[cfg(feature = "format")]
        "f6" => {
            use core::num::NonZeroU8;
            const ILC: u128 = lexical_core::NumberFormatBuilder::new().digit_separator(NonZeroU8::new(b'_')).internal_digit_separator(true).leading_digit_separator(true).consecutive_digit_separator(true).build_strict();
            let o = lexical_core::ParseFloatOptions::new();
            let r = lexical_core::parse_with_options::<f64, ILC>(b"1_", &o);
            println!("internal+leading+consecutive separators (trailing NOT enabled): parse(\"1_\") = {r:?} (expected Err)");
            if r.is_err() { 0 } else { 1 }
        },
        #[cfg(feature = "format")]
        "f7" => {
            use core::num::NonZeroU8;
            const ITC: u128 = lexical_core::NumberFormatBuilder::new().digit_separator(NonZeroU8::new(b'_')).internal_digit_separator(true).trailing_digit_separator(true).consecutive_digit_separator(true).build_strict();
            let o = lexical_core::ParseFloatOptions::new();
            let r = lexical_core::parse_with_options::<f64, ITC>(b"._0", &o);
            println!("internal+trailing+consecutive separators (leading NOT enabled): parse(\"._0\") = {r:?} (expected Err)");
            if r.is_err() { 0 } else { 1 }
        },
        // F10: binary::truncate_and_round computed `final_bits - initial_bits` (leading zeros shrink on a rounding carry)
        #[cfg(feature = "power-of-two")]
        "f10" => {
            use core::num::NonZeroUsize;
            const F2: u128 = lexical_core::NumberFormatBuilder::from_radix(2);
            let o = lexical_core::WriteFloatOptions::builder().exponent(b'^').max_significant_digits(NonZeroUsize::new(2)).build().unwrap();
            let r = std::panic::catch_unwind(|| { let mut b = [0u8; 1200]; String::from_utf8_lossy(lexical_core::write_with_options::<f64, F2>(7.5, &mut b, &o)).to_string() });
            println!("radix 2, max_significant_digits 2: write(7.5) = {:?} (111.1b rounds to 1000b: expected \"1000.0\")", r.as_ref().map_err(|_| "PANIC"));
            if matches!(&r, Ok(s) if s == "1000.0") { 0 } else { 1 }
        },
        // F11: with max_significant_digits the power-of-two writers cut the mantissa at a bit count that is not aligned to the
        // digits of radix 4/8/16/32 and keep aligning by the unshifted exponent
        #[cfg(feature = "power-of-two")]
        "f11" => {
            use core::num::NonZeroUsize;
            const F16: u128 = lexical_core::NumberFormatBuilder::from_radix(16);
            let o = lexical_core::WriteFloatOptions::builder().exponent(b'^').max_significant_digits(NonZeroUsize::new(1)).build().unwrap();
            let r = std::panic::catch_unwind(|| { let mut b = [0u8; 1200]; String::from_utf8_lossy(lexical_core::write_with_options::<f64, F16>(1.0, &mut b, &o)).to_string() });
            println!("radix 16, max_significant_digits 1: write(1.0) = {:?} (expected \"1.0\")", r.as_ref().map_err(|_| "PANIC"));
            if matches!(&r, Ok(s) if s == "1.0") { 0 } else { 1 }
        },
        // F12: a contiguous component iterator over a buffer whose format has a separator for OTHER components never counted
        // the digits it returned through `next()`, so the integer parser reported Empty
        #[cfg(feature = "format")]
        "f12" => {
            use core::num::NonZeroU8;
            const FRAC: u128 = lexical_core::NumberFormatBuilder::new().digit_separator(NonZeroU8::new(b'_')).fraction_internal_digit_separator(true).build_strict();
            let o = lexical_core::ParseIntegerOptions::new();
            let r = lexical_core::parse_with_options::<u64, FRAC>(b"12", &o);
            println!("format with fraction-internal separators only: parse::<u64>(\"12\") = {r:?} (expected Ok(12))");
            if r == Ok(12) { 0 } else { 1 }
        },
        // F13: the big-integer comparison of the odd-radix slow path compares input BYTES with upper-case digit characters,
        // so lower-case digits (accepted by the parser) change the rounding of near-halfway inputs
        #[cfg(feature = "radix")]
        "f13" => {
            const F13: u128 = lexical_core::NumberFormatBuilder::from_radix(13);
            let o = lexical_core::ParseFloatOptions::builder().exponent(b'^').build().unwrap();
            let lower = b"3c6b01c5858002190a62658583051^2";
            let upper = lower.to_ascii_uppercase();
            let a = lexical_core::parse_with_options::<f64, F13>(lower, &o);
            let b = lexical_core::parse_with_options::<f64, F13>(&upper, &o);
            println!("radix 13: parse({:?}) = {:?}; the same digits in upper case = {:?} (must be identical)", String::from_utf8_lossy(lower), a.map(|x| x.to_bits()), b.map(|x| x.to_bits()));
            if a.map(|x| x.to_bits()) == b.map(|x| x.to_bits()) { 0 } else { 1 }
        },
        _ => { eprintln!("unknown witness"); 2 },
    };
    std::process::exit(if code > 0 { 1 } else { 0 });
}
