//! Developer aid: bellerophon lossy-vs-exact contract on random (mantissa, exponent).
use lexverif::h_bellerophon::cmp_bell;
fn main() {
    std::panic::set_hook(Box::new(|_| {}));
    let mut x = 0x9E3779B97F4A7C15u64;
    let (mut n, mut bad, mut inconclusive) = (0u64, 0u64, 0u64);
    for it in 0..4_000_000u64 {
        x ^= x << 13; x ^= x >> 7; x ^= x << 17; let m = if it % 3 == 0 { x >> (x % 64) } else { x };
        x ^= x << 13; x ^= x >> 7; x ^= x << 17; let e = (x % 800) as i64 - 400;
        let e = if it % 50 == 0 { (x % 0x2200) as i64 - 0x1100 } else { e };
        let many = x & (1 << 40) != 0;
        n += 1;
        let r = std::panic::catch_unwind(|| (cmp_bell::<f64, { lexical_util::format::STANDARD }>(m, e, many, 52, 0x7ff), cmp_bell::<f32, { lexical_util::format::STANDARD }>(m, e, many, 23, 0xff)));
        match r { Ok((Ok(a), Ok(_))) => { if a { inconclusive += 1; } }, Ok((Err(er), _)) | Ok((_, Err(er))) => { bad += 1; if bad < 6 { println!("  m={m} e={e} many={many}: {er}"); } }, Err(_) => { bad += 1; if bad < 6 { println!("  m={m} e={e} many={many}: PANIC"); } } }
    }
    println!("sweep_bell: {n} cases, {bad} violations, {inconclusive} inconclusive (f64)");
}
