//! PF10-special / C15: non-numeric special values on the parse side.
use crate::vk::{any, assume, cover};
use crate::vcheck;
use lexical_parse_float::parse::{parse_partial_special, parse_special};
use lexical_parse_float::Options;
use lexical_util::iterator::AsBytes;

#[derive(Clone, Copy, PartialEq, Eq, Debug)]
pub enum Sp { Nan, Inf }

fn eq_ci(a: u8, b: u8) -> bool { a.to_ascii_lowercase() == b.to_ascii_lowercase() }

fn starts(s: &[u8], pat: &[u8], cs: bool) -> bool {
    if s.len() < pat.len() { return false; }
    let mut i = 0;
    while i < pat.len() {
        if cs { if s[i] != pat[i] { return false; } } else if !eq_ci(s[i], pat[i]) { return false; }
        i += 1;
    }
    true
}

/// reference: first of (nan, infinity, inf) that is a prefix of `s` (ASCII case-insensitive unless `cs`)
pub fn special_ref(s: &[u8], nan: Option<&[u8]>, inf: Option<&[u8]>, infinity: Option<&[u8]>, cs: bool) -> Option<(Sp, usize)> {
    if let Some(p) = nan { if starts(s, p, cs) { return Some((Sp::Nan, p.len())); } }
    if let Some(p) = infinity { if starts(s, p, cs) { return Some((Sp::Inf, p.len())); } }
    if let Some(p) = inf { if starts(s, p, cs) { return Some((Sp::Inf, p.len())); } }
    None
}

pub fn cmp_special<const F: u128>(s: &[u8], neg: bool, opts: &Options, cs: bool, allowed: bool) -> Result<(), &'static str> {
    let want = if allowed { special_ref(s, opts.nan_string(), opts.inf_string(), opts.infinity_string(), cs) } else { None };
    let rp = parse_partial_special::<f64, F>(s.bytes::<F>(), neg, opts);
    let rc = parse_special::<f64, F>(s.bytes::<F>(), neg, opts);
    match (rp, want) {
        (None, None) => {},
        (Some((f, n)), Some((k, m))) => {
            if n != m { return Err("partial special: consumed count == length of the matched option string"); }
            if n > s.len() { return Err("count <= len"); }
            match k {
                Sp::Nan => if !f.is_nan() { return Err("NaN string yields NaN"); },
                Sp::Inf => { if !(f.is_infinite() && (f.is_sign_negative() == neg)) { return Err("infinity string yields the signed infinity"); } },
            }
        },
        (Some(_), None) => return Err("accepted a special the options/format do not allow"),
        (None, Some(_)) => return Err("rejected a configured special string"),
    }
    match (rc, want) {
        (Some(f), Some((k, m))) => {
            if m != s.len() { return Err("complete special accepted although bytes remain"); }
            if k == Sp::Nan && !f.is_nan() { return Err("NaN string yields NaN (complete)"); }
            if k == Sp::Inf && !(f.is_infinite() && (f.is_sign_negative() == neg)) { return Err("infinity (complete)"); }
        },
        (Some(_), None) => return Err("complete: accepted a special that is not configured"),
        (None, Some((_, m))) => if m == s.len() { return Err("complete: rejected a configured special string"); },
        (None, None) => {},
    }
    Ok(())
}

const OPT_CUSTOM: Options = Options::builder().nan_string(Some(b"na")).inf_string(Some(b"i")).infinity_string(Some(b"inner")).build_unchecked();
const OPT_NONAN: Options = Options::builder().nan_string(None).inf_string(Some(b"Inf")).infinity_string(None).build_unchecked();

macro_rules! special_body {
    ($F:expr, $opts:expr, $L:expr, $cs:expr, $allowed:expr) => {{
        const F: u128 = $F;
        let bytes: [u8; $L] = any();
        let len: usize = any();
        assume(len <= $L);
        let neg: bool = any();
        let opts = $opts;
        let r = cmp_special::<F>(&bytes[..len], neg, &opts, $cs, $allowed);
        vcheck!(r.is_ok(), "special parsing == reference prefix matcher (kind, count, sign, completeness)");
        cover(len == $L);
    }};
}

crate::harnesses! {
    /// default option strings (NaN / inf / infinity), STANDARD: all byte strings len <= 8.
    /// @prop C15 C10 C11
    /// @feat default compact radix_format
    /// @bound input length <= 8 bytes (all byte values); option strings: defaults
    /// @fn lexical-parse-float::parse::parse_special
    /// @fn lexical-parse-float::parse::parse_partial_special
    /// @fn lexical-parse-float::parse::parse_positive_special
    /// @fn lexical-parse-float::parse::is_special_eq
    /// @fn lexical-parse-float::shared::starts_with_uncased
    /// @timeout 1500
    #[cfg_attr(kani, kani::unwind(10))]
    fn special_default_len8() { special_body!(lexical_util::format::STANDARD, Options::new(), 8, false, true) }

    /// custom option strings where one is a prefix of another ("i" / "inner" / "na"): all byte strings len <= 6.
    /// @prop C15 C10 C11
    /// @feat default radix_format
    /// @bound input length <= 6 bytes (all byte values); option strings: nan="na", inf="i", infinity="inner"
    /// @fn lexical-parse-float::parse::parse_positive_special (fallback order)
    /// @timeout 1500
    #[cfg_attr(kani, kani::unwind(8))]
    fn special_custom_prefix_len6() { special_body!(lexical_util::format::STANDARD, OPT_CUSTOM, 6, false, true) }

    /// nan and infinity disabled (None): only "Inf" is accepted: all byte strings len <= 5.
    /// @prop C15 C10
    /// @feat default radix_format
    /// @bound input length <= 5 bytes (all byte values); option strings: nan=None, inf="Inf", infinity=None
    /// @fn lexical-parse-float::parse::parse_positive_special (None options)
    /// @timeout 1500
    #[cfg_attr(kani, kani::unwind(7))]
    fn special_none_options_len5() { special_body!(lexical_util::format::STANDARD, OPT_NONAN, 5, false, true) }
}

#[cfg(feature = "format")]
pub mod fmt {
    use super::*;
    use lexical_util::format::NumberFormatBuilder as B;
    pub const F_CS: u128 = B::new().case_sensitive_special(true).build_strict();
    pub const F_NOSPECIAL: u128 = B::new().no_special(true).build_strict();
    crate::harnesses! {
        /// case_sensitive_special: exact-case match only: all byte strings len <= 8.
        /// @prop C15 C12
        /// @feat format radix_format
        /// @bound input length <= 8 bytes; defaults; format case_sensitive_special
        /// @fn lexical-parse-float::parse::is_special_eq (case-sensitive branch)
        /// @fn lexical-parse-float::shared::starts_with
        /// @timeout 1500
        #[cfg_attr(kani, kani::unwind(10))]
        fn special_case_sensitive_len8() { special_body!(F_CS, Options::new(), 8, true, true) }

        /// no_special: nothing is ever accepted as a special: all byte strings len <= 8.
        /// @prop C15 C12
        /// @feat format radix_format
        /// @bound input length <= 8 bytes; format no_special
        /// @fn lexical-parse-float::parse::parse_positive_special (no_special)
        #[cfg_attr(kani, kani::unwind(10))]
        fn special_forbidden_len8() { special_body!(F_NOSPECIAL, Options::new(), 8, false, false) }
    }
}
