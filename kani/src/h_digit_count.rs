//! W1/W2: digit counts == ndigits (the quantity the unchecked radix writer's safety depends on).
#![cfg(not(feature = "compact"))]
use crate::spec;
use crate::vk::{any, assume, cover};
use crate::vcheck;
use lexical_write_integer::decimal::DecimalCount;
#[cfg(feature = "power-of-two")]
use lexical_write_integer::digit_count::DigitCount;

/// ndigits in base 10 by comparisons only (no division: cheap to bit-blast)
fn nd10(x: u128) -> usize {
    let mut n = 1usize;
    let mut p: u128 = 10;
    while n < 39 {
        if x < p { return n; }
        n += 1;
        if n < 39 { p *= 10; }
    }
    39
}

/// ndigits in base 2^k: smallest n >= 1 with x < 2^(k*n)
/// loop-free characterisation: n is the digit count of x in radix 2^k  <=>  n >= 1, (2^k)^(n-1) <= x (or x == 0 and
/// n == 1) and x < (2^k)^n
pub fn is_ndpow2(x: u128, k: u32, n: usize) -> bool {
    if n == 0 || n > 128 { return false; }
    let n = n as u32;
    let lo_ok = if n == 1 { true } else { (n - 1) * k < 128 && (x >> ((n - 1) * k)) != 0 };
    let hi_ok = n * k >= 128 || (x >> (n * k)) == 0;
    lo_ok && hi_ok
}

#[allow(dead_code)]
pub fn ndpow2(x: u128, k: u32) -> usize {
    let mut n = 1usize;
    while (n as u32) * k < 128 {
        if x >> ((n as u32) * k) == 0 { return n; }
        n += 1;
    }
    n
}

crate::harnesses! {
    /// u32::decimal_count (table-driven fast_digit_count) == number of decimal digits, all u32.
    /// @prop C03 C09 C02
    /// @feat default radix
    /// @fn lexical-write-integer::decimal::fast_digit_count
    /// @fn lexical-write-integer::digit_count::fast_log2
    #[cfg_attr(kani, kani::unwind(41))]
    fn decimal_count_u32_all() {
        let x: u32 = any();
        vcheck!(x.decimal_count() == nd10(x as u128), "decimal_count(u32) == ndigits");
        vcheck!((x as u8).decimal_count() == nd10((x as u8) as u128), "decimal_count(u8) == ndigits");
        vcheck!((x as u16).decimal_count() == nd10((x as u16) as u128), "decimal_count(u16) == ndigits");
        cover(x >= 1_000_000_000);
    }

    /// u64::decimal_count (fast_log10 + table fix-up) == number of decimal digits, all u64.
    /// @prop C03 C09 C02
    /// @feat default radix
    /// @fn lexical-write-integer::decimal::fallback_digit_count[u64]
    /// @fn lexical-write-integer::decimal::fast_log10
    #[cfg_attr(kani, kani::unwind(41))]
    fn decimal_count_u64_all() {
        let x: u64 = any();
        vcheck!(x.decimal_count() == nd10(x as u128), "decimal_count(u64) == ndigits");
        cover(x >= 10_000_000_000_000_000_000);
    }

    /// u128::decimal_count == number of decimal digits, all u128.
    /// @prop C03 C09
    /// @feat default radix
    /// @fn lexical-write-integer::decimal::fallback_digit_count[u128]
    #[cfg_attr(kani, kani::unwind(41))]
    fn decimal_count_u128_all() {
        let x: u128 = any();
        vcheck!(x.decimal_count() == nd10(x), "decimal_count(u128) == ndigits");
        cover(x >= 100_000_000_000_000_000_000_000_000_000_000_000_000);
    }
}

#[cfg(feature = "power-of-two")]
pub mod pow2 {
    use super::*;
    crate::harnesses! {
        /// digit_count for radix 2/4/8/16/32 (leading-zero based) == ndigits, all u32/u64/u128 values.
        /// @prop C03 C09 C06
        /// @feat pow2 radix
        /// @fn lexical-write-integer::digit_count::DigitCount::digit_count (digit_log2/4/8/16/32)
        #[cfg_attr(kani, kani::unwind(4))]
        fn digit_count_pow2_all() {
            let x: u128 = any();
            let k: u32 = any();
            assume(k >= 1 && k <= 5);
            let r = 1u32 << k;
            vcheck!(is_ndpow2(x, k, x.digit_count(r)), "digit_count(u128, 2^k) == ndigits");
            vcheck!(is_ndpow2((x as u64) as u128, k, (x as u64).digit_count(r)), "digit_count(u64, 2^k) == ndigits");
            vcheck!(is_ndpow2((x as u32) as u128, k, (x as u32).digit_count(r)), "digit_count(u32, 2^k) == ndigits");
            vcheck!(is_ndpow2((x as u16) as u128, k, (x as u16).digit_count(r)), "digit_count(u16, 2^k) == ndigits");
            vcheck!(is_ndpow2((x as u8) as u128, k, (x as u8).digit_count(r)), "digit_count(u8, 2^k) == ndigits");
            cover(x == u128::MAX && k == 5);
        }
    }
}

#[cfg(feature = "radix")]
pub mod naive {
    use super::*;
    crate::harnesses! {
        /// naive (division loop) digit_count for u8/u16 == ndigits, all values x all radices 2..=36.
        /// @prop C03 C09
        /// @feat radix
        /// @fn lexical-write-integer::digit_count::DigitCount::digit_count (digit_count!(@naive)) [u8,u16]
        #[cfg_attr(kani, kani::unwind(18))]
        fn digit_count_naive_u16_all() {
            let x: u16 = any();
            let r: u32 = any();
            assume(r >= 2 && r <= 36);
            vcheck!(x.digit_count(r) == spec::ndigits(x as u128, r), "digit_count(u16, r) == ndigits");
            vcheck!((x as u8).digit_count(r) == spec::ndigits((x as u8) as u128, r), "digit_count(u8, r) == ndigits");
            cover(x == u16::MAX && r == 2);
        }
    }
}
