//! shared::round: the number of bits it shifts out is the `eb` function that the Verus unit pf_bell_err uses to state the
//! contract of Bellerophon's error analysis (error_is_accurate must analyse exactly the bits that round() truncates).
use crate::vk::{any, assume, cover};
use crate::vcheck;
use lexical_parse_float::float::ExtendedFloat80;
use lexical_parse_float::shared;

fn eb(exp: i32, ms: i32) -> i32 { if -exp >= ms { 1 - exp } else { ms } }

crate::harnesses! {
    /// shared::round::<f64> and ::<f32>: the shift handed to the rounding callback == min(eb(exp), 64) for every biased exponent
    /// >= -64 and every mantissa.
    /// @prop C01 C05 C16 C19
    /// @feat default compact
    /// @quickfeats 2
    /// @fn lexical-parse-float::shared::round
    /// @timeout 900
    fn round_shift_matches_spec() {
        let mant: u64 = any();
        let exp: i32 = any();
        assume(exp >= -64 && exp <= 4000);
        let seen = core::cell::Cell::new(-1i32);
        let mut fp = ExtendedFloat80 { mant, exp };
        shared::round::<f64, _>(&mut fp, |f, s| { seen.set(s); shared::round_nearest_tie_even(f, s, |o, h, a| a || (o && h)); });
        let want = eb(exp, 11);
        vcheck!(seen.get() == if want > 64 { 64 } else { want }, "round::<f64> truncates min(eb(exp, 11), 64) bits");
        let seen32 = core::cell::Cell::new(-1i32);
        let mut fp32 = ExtendedFloat80 { mant, exp };
        shared::round::<f32, _>(&mut fp32, |f, s| { seen32.set(s); shared::round_nearest_tie_even(f, s, |o, h, a| a || (o && h)); });
        let want32 = eb(exp, 40);
        vcheck!(seen32.get() == if want32 > 64 { 64 } else { want32 }, "round::<f32> truncates min(eb(exp, 40), 64) bits");
        cover(exp == -11);
    }
}
