//! WF2: Dragonbox integer helpers with exact contracts.
#![cfg(not(feature = "compact"))]
use crate::vk::{any, assume, cover};
use crate::vcheck;
use lexical_write_float::algorithm::{self as alg, DragonboxFloat};

fn pow10(n: u32) -> u64 { let mut p = 1u64; let mut i = 0; while i < n { p *= 10; i += 1; } p }

crate::harnesses! {
    /// f32 remove_trailing_zeros: for every non-zero u32 m, returns (m', s) with m' * 10^s == m and 10 does not divide m'.
    /// @prop C02
    /// (quick tier: the same contract is proved for every input by the Verus units wf_rtz / wf_dbmul; this harness supplies counterexamples)
    /// @tier thorough
    /// @feat default radix_format
    /// @fn lexical-write-float::algorithm::DragonboxFloat::remove_trailing_zeros[f32]
    /// @fn lexical-write-float::algorithm::rotr32
    /// @timeout 1800
    #[cfg_attr(kani, kani::unwind(12))]
    fn dragonbox_rtz_f32_all() {
        let m: u32 = any();
        assume(m != 0);
        let (r, s) = <f32 as DragonboxFloat>::remove_trailing_zeros(m as u64);
        vcheck!(s >= 0 && s <= 9, "stripped exponent in range");
        vcheck!(r != 0 && r % 10 != 0, "no trailing decimal zero left");
        vcheck!(r.checked_mul(pow10(s as u32)) == Some(m as u64), "m' * 10^s == m (only zeros were removed)");
        cover(s == 9);
    }

    /// f64 remove_trailing_zeros on significands below 2^32 (magic-number divisibility test by 10^8, then the 32-bit loop).
    /// @prop C02
    /// (quick tier: the same contract is proved for every input by the Verus units wf_rtz / wf_dbmul; this harness supplies counterexamples)
    /// @tier thorough
    /// @feat default radix_format
    /// @bound significand < 2^32 (the function is used for significands up to 10^17)
    /// @fn lexical-write-float::algorithm::DragonboxFloat::remove_trailing_zeros[f64]
    /// @timeout 1800
    #[cfg_attr(kani, kani::unwind(12))]
    fn dragonbox_rtz_f64_small() {
        let m: u32 = any();
        assume(m != 0);
        let (r, s) = <f64 as DragonboxFloat>::remove_trailing_zeros(m as u64);
        vcheck!(s >= 0 && s <= 9, "stripped exponent in range");
        vcheck!(r != 0 && r % 10 != 0, "no trailing decimal zero left");
        vcheck!(r.checked_mul(pow10(s as u32)) == Some(m as u64), "m' * 10^s == m (only zeros were removed)");
        cover(s == 8);
    }

    /// f64 remove_trailing_zeros on k * 10^8 + d with k < 2^27, d < 4 (values around multiples of 10^8 up to 1.3e16).
    /// @prop C02
    /// (quick tier: the same contract is proved for every input by the Verus units wf_rtz / wf_dbmul; this harness supplies counterexamples)
    /// @tier thorough
    /// @feat default radix_format
    /// @bound significands k * 10^8 + d, k < 2^27, d in 0..=3
    /// @fn lexical-write-float::algorithm::DragonboxFloat::remove_trailing_zeros[f64] (divisibility by 10^8)
    /// @timeout 2400
    #[cfg_attr(kani, kani::unwind(12))]
    fn dragonbox_rtz_f64_near_1e8_multiples() {
        let k: u32 = any();
        let d: u8 = any();
        assume(k >= 1 && k < (1 << 27) && d <= 3);
        let m = k as u64 * 100_000_000 + d as u64;
        let (r, s) = <f64 as DragonboxFloat>::remove_trailing_zeros(m);
        vcheck!(s >= 0 && s <= 16, "stripped exponent in range");
        vcheck!(r != 0 && r % 10 != 0, "no trailing decimal zero left");
        vcheck!(r.checked_mul(pow10(s as u32)) == Some(m), "m' * 10^s == m (only zeros were removed)");
        if d != 0 { vcheck!(s == 0 && r == m, "a significand that is not a multiple of 10 is returned unchanged"); }
        cover(d == 0 && s >= 8);
    }

    /// divide_by_pow10 (f64, exp = KAPPA + 1 = 3) == n / 1000 for every n <= n_max used by compute_nearest_normal.
    /// @prop C02
    /// (quick tier: the same contract is proved for every input by the Verus units wf_rtz / wf_dbmul; this harness supplies counterexamples)
    /// @tier thorough
    /// @feat default radix_format
    /// @fn lexical-write-float::algorithm::divide_by_pow10_64
    /// @fn lexical-write-float::algorithm::umul128_upper64
    /// @timeout 1800
    fn dragonbox_divide_by_pow10_f64() {
        let n: u64 = any();
        let n_max: u64 = (1u64 << 53) * 1000 - 1;
        assume(n <= n_max);
        vcheck!(alg::divide_by_pow10_64(n, 3, n_max) == n / 1000, "divide_by_pow10_64(n, 3) == n / 1000");
    }

    /// divide_by_pow10 (f32, exp = KAPPA + 1 = 2) == n / 100 for every n <= n_max.
    /// @prop C02
    /// (quick tier: the same contract is proved for every input by the Verus units wf_rtz / wf_dbmul; this harness supplies counterexamples)
    /// @tier thorough
    /// @feat default radix_format
    /// @fn lexical-write-float::algorithm::divide_by_pow10_32
    fn dragonbox_divide_by_pow10_f32() {
        let n: u32 = any();
        let n_max: u64 = (1u64 << 24) * 100 - 1;
        assume((n as u64) <= n_max);
        vcheck!(alg::divide_by_pow10_32(n, 2) == n / 100, "divide_by_pow10_32(n, 2) == n / 100");
    }

    /// check_div_pow10 / div_pow10 (small divisor 10^kappa): exact quotient and divisibility flag on the call-site range.
    /// @prop C02
    /// @feat default radix_format
    /// @fn lexical-write-float::algorithm::DragonboxFloat::check_div_pow10
    /// @fn lexical-write-float::algorithm::DragonboxFloat::div_pow10
    fn dragonbox_small_div() {
        let n: u32 = any();
        assume(n <= 1000);
        let (q, d) = <f64 as DragonboxFloat>::check_div_pow10(n);
        vcheck!(q == n / 100 && d == (n % 100 == 0), "f64 check_div_pow10(n) == (n / 100, 100 | n) for n <= 10^3");
        vcheck!(<f64 as DragonboxFloat>::div_pow10(n) == n / 100, "f64 div_pow10(n) == n / 100");
        if n <= 100 {
            let (q, d) = <f32 as DragonboxFloat>::check_div_pow10(n);
            vcheck!(q == n / 10 && d == (n % 10 == 0), "f32 check_div_pow10(n) == (n / 10, 10 | n) for n <= 10^2");
            vcheck!(<f32 as DragonboxFloat>::div_pow10(n) == n / 10, "f32 div_pow10(n) == n / 10");
        }
    }
}
