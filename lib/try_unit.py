#!/usr/bin/env python3
"""Developer helper: run one Verus unit and print the outcome."""
import sys, os
sys.path.insert(0, os.path.dirname(os.path.abspath(__file__)))
os.environ.setdefault("VERIF_KEEP", "1")
from core import WorkDir
import vunit
name = sys.argv[1]
variables = dict(a.split('=', 1) for a in sys.argv[2:])
wd = WorkDir()
r = vunit.run_vc_unit(name, wd, variables or None, label=name + ('-' + '_'.join(variables.values()) if variables else ''), threads=8)
print("unit", r.name, "error:", r.error)
for o in r.obls:
    print(" ", o.status, o.count, o.name, ("\n      " + o.detail.replace("\n", "\n      ")) if o.status != "discharged" else "")
print("functions", len(r.functions), "wall", round(r.wall_s, 1), "solver", r.solver_s)
print("dropped", r.dropped); print("assumptions", r.assumptions)
print("scratch", wd.path)
