//! PI3: integer parsers (complete and partial) against the reference scanner `scan_int`; totality (C10);
//! complete/partial agreement (C11).
use crate::spec::{self, Scan};
use crate::vk::{any, assume, cover};
use crate::vcheck;
use lexical_parse_integer::{FromLexical, FromLexicalWithOptions, Options};
use lexical_util::error::Error;
use lexical_util::format::{NumberFormatBuilder, STANDARD};

/// magnitude/sign view of a typed result
macro_rules! mag {
    ($t:ty, $v:expr) => {{
        let v: $t = $v;
        #[allow(unused_comparisons)]
        if v < 0 as $t { (true, (v as i128).unsigned_abs()) } else { (false, v as u128) }
    }};
}

macro_rules! limits {
    ($t:ty) => {{
        #[allow(unused_comparisons)]
        let signed = <$t>::MIN < 0 as $t;
        let max_pos = <$t>::MAX as u128;
        let max_neg = if signed { (<$t>::MIN as i128).unsigned_abs() } else { 0 };
        (signed, max_pos, max_neg)
    }};
}

/// Compare a complete-parse result with the reference.
macro_rules! cmp_complete {
    ($t:ty, $res:expr, $exp:expr, $len:expr) => {{
        match ($res, $exp) {
            (Ok(v), Scan::Ok(neg, m, n)) => {
                let (rn, rm) = mag!($t, v);
                vcheck!(n == $len, "complete Ok only when the whole input is consumed");
                vcheck!(rm == m && (rn == neg || m == 0), "complete: value == exact value of the digits");
            },
            (Err(Error::Empty(i)), Scan::Empty(j)) => vcheck!(i == j, "Empty index"),
            (Err(Error::InvalidDigit(i)), Scan::InvalidDigit(j)) => vcheck!(i == j, "InvalidDigit index == first non-digit"),
            (Err(Error::Overflow(i)), Scan::Overflow(j)) => vcheck!(i == j, "Overflow index == first digit leaving the range"),
            (Err(Error::Underflow(i)), Scan::Underflow(j)) => vcheck!(i == j, "Underflow index == first digit leaving the range"),
            _ => vcheck!(false, "complete: result kind == reference scanner kind"),
        }
    }};
}

macro_rules! cmp_partial {
    ($t:ty, $res:expr, $exp:expr, $len:expr) => {{
        match ($res, $exp) {
            (Ok((v, cnt)), Scan::Ok(neg, m, n)) => {
                let (rn, rm) = mag!($t, v);
                vcheck!(cnt == n, "partial: consumed count == index of first non-digit");
                vcheck!(cnt <= $len, "partial: count <= len");
                vcheck!(rm == m && (rn == neg || m == 0), "partial: value == exact value of the digits");
            },
            (Err(Error::Empty(i)), Scan::Empty(j)) => vcheck!(i == j, "Empty index"),
            (Err(Error::Overflow(i)), Scan::Overflow(j)) => vcheck!(i == j, "Overflow index"),
            (Err(Error::Underflow(i)), Scan::Underflow(j)) => vcheck!(i == j, "Underflow index"),
            _ => vcheck!(false, "partial: result kind == reference scanner kind"),
        }
    }};
}

/// reference scan for type $t (u64 accumulator for <= 32-bit types, u128 otherwise)
macro_rules! refscan {
    ($t:ty, $s:expr, $radix:expr, $partial:expr) => {{
        let (signed, max_pos, max_neg) = limits!($t);
        if core::mem::size_of::<$t>() <= 4 {
            spec::scan_int64($s, $radix as u32, signed, max_pos as u64, max_neg as u64, $partial)
        } else {
            spec::scan_int($s, $radix as u32, signed, max_pos, max_neg, $partial)
        }
    }};
}

/// symbolic input: `$L` bytes, length <= `$L`; `$alpha`: 0 = all byte values, 1 = number alphabet only
macro_rules! sym_input {
    ($L:expr, $alpha:expr, $bytes:ident, $len:ident) => {
        let $bytes: [u8; $L] = any();
        let $len: usize = any();
        assume($len <= $L);
        if $alpha == 1 {
            let mut i = 0;
            while i < $L {
                let c = $bytes[i];
                assume((c >= b'0' && c <= b'9') || c == b'+' || c == b'-' || c == b'a' || c == b'Z' || c == b'_' || c == b'.' || c == 0xff);
                i += 1;
            }
        }
    };
}

macro_rules! complete_body {
    ($t:ty, $L:expr, $radix:expr, $alpha:expr, $nmd:expr) => {{
        const FORMAT: u128 = crate::radix_format($radix);
        sym_input!($L, $alpha, bytes, len);
        let s = &bytes[..len];
        let opts = Options::builder().no_multi_digit($nmd).build_unchecked();
        let exp = refscan!($t, s, $radix, false);
        let rc = <$t>::from_lexical_with_options::<FORMAT>(s, &opts);
        cmp_complete!($t, rc, exp, len);
        cover(len == $L);
    }};
}

macro_rules! partial_body {
    ($t:ty, $L:expr, $radix:expr, $alpha:expr, $nmd:expr) => {{
        const FORMAT: u128 = crate::radix_format($radix);
        sym_input!($L, $alpha, bytes, len);
        let s = &bytes[..len];
        let opts = Options::builder().no_multi_digit($nmd).build_unchecked();
        let exp = refscan!($t, s, $radix, true);
        let rp = <$t>::from_lexical_partial_with_options::<FORMAT>(s, &opts);
        cmp_partial!($t, rp, exp, len);
        cover(len == $L);
    }};
}

/// C11 relation, no reference involved.
macro_rules! agree_body {
    ($t:ty, $L:expr, $radix:expr, $alpha:expr, $nmd:expr) => {{
        const FORMAT: u128 = crate::radix_format($radix);
        sym_input!($L, $alpha, bytes, len);
        let s = &bytes[..len];
        let opts = Options::builder().no_multi_digit($nmd).build_unchecked();
        let rc = <$t>::from_lexical_with_options::<FORMAT>(s, &opts);
        let rp = <$t>::from_lexical_partial_with_options::<FORMAT>(s, &opts);
        match (rc, rp) {
            (Ok(v), Ok((w, n))) => vcheck!(v == w && n == len, "C11: complete Ok(v) implies partial Ok((v, len))"),
            (Ok(_), Err(_)) => vcheck!(false, "C11: complete Ok but partial Err"),
            (Err(_), Ok((_, n))) => vcheck!(n < len, "C11: partial Ok((v, len)) implies complete Ok(v)"),
            _ => {},
        }
        if let Ok((w, n)) = rp {
            vcheck!(n <= len, "C10: consumed count <= len");
            if n > 0 && n <= len {
                match <$t>::from_lexical_with_options::<FORMAT>(&s[..n], &opts) {
                    Ok(v2) => vcheck!(v2 == w, "C11: complete(prefix) == partial value"),
                    Err(Error::Empty(k)) => vcheck!(k == n && n == 1 && (s[0] == b'+' || s[0] == b'-'), "C11: prefix is a lone sign"),
                    Err(_) => vcheck!(false, "C11: complete(prefix) failed"),
                }
            }
        }
        cover(len == $L);
    }};
}


/// digit template: optional sign + exactly $N symbolic decimal digits (reaches the 4/8-digit SWAR paths and the overflow edge)
macro_rules! digits_body {
    ($t:ty, $N:expr, $signed:expr) => {{
        const FORMAT: u128 = crate::radix_format(10);
        let ds: [u8; $N] = any();
        let mut buf = [0u8; $N + 1];
        let neg: bool = any();
        if !$signed { assume(!neg); }
        let mut i = 0;
        let off = neg as usize;
        if neg { buf[0] = b'-'; }
        while i < $N { assume(ds[i] >= b'0' && ds[i] <= b'9'); buf[off + i] = ds[i]; i += 1; }
        let s = &buf[..$N + off];
        let nmd: bool = any();
        let opts = Options::builder().no_multi_digit(nmd).build_unchecked();
        let exp = refscan!($t, s, 10, false);
        let rc = <$t>::from_lexical_with_options::<FORMAT>(s, &opts);
        cmp_complete!($t, rc, exp, s.len());
        let expp = refscan!($t, s, 10, true);
        let rp = <$t>::from_lexical_partial_with_options::<FORMAT>(s, &opts);
        cmp_partial!($t, rp, expp, s.len());
        cover(neg == $signed);
    }};
}

crate::harnesses! {
    /// u8 decimal complete == scan_int, all byte strings len <= 4.
    /// @prop C04 C10 C16
    /// @feat default compact radix_format
    /// @bound input length <= 4 bytes (all byte values)
    /// @fn lexical-parse-integer::algorithm::algorithm_complete[u8]
    #[cfg_attr(kani, kani::unwind(6))]
    fn parse_u8_r10_complete_len4() { complete_body!(u8, 4, 10, 0, false) }

    /// u8 decimal partial == scan_int, all byte strings len <= 4.
    /// @prop C04 C10 C16
    /// @feat default compact radix_format
    /// @bound input length <= 4 bytes (all byte values)
    /// @fn lexical-parse-integer::algorithm::algorithm_partial[u8]
    #[cfg_attr(kani, kani::unwind(6))]
    fn parse_u8_r10_partial_len4() { partial_body!(u8, 4, 10, 0, false) }

    /// i8 decimal complete == scan_int, all byte strings len <= 4.
    /// @prop C04 C10 C16
    /// @feat default compact radix_format
    /// @bound input length <= 4 bytes (all byte values)
    /// @fn lexical-parse-integer::algorithm::algorithm_complete[i8]
    #[cfg_attr(kani, kani::unwind(6))]
    fn parse_i8_r10_complete_len4() { complete_body!(i8, 4, 10, 0, false) }

    /// i8 decimal partial == scan_int, all byte strings len <= 4.
    /// @prop C04 C10 C16
    /// @feat default compact radix_format
    /// @bound input length <= 4 bytes (all byte values)
    /// @fn lexical-parse-integer::algorithm::algorithm_partial[i8]
    #[cfg_attr(kani, kani::unwind(6))]
    fn parse_i8_r10_partial_len4() { partial_body!(i8, 4, 10, 0, false) }

    /// i8 decimal: complete/partial agreement (both directions + prefix re-parse), strings len <= 4 over the number alphabet.
    /// @prop C11
    /// @feat default compact radix_format
    /// @bound input length <= 4 bytes over {0-9 + - a Z _ . 0xff}
    /// @fn lexical-parse-integer::algorithm::algorithm_complete[i8]
    /// @fn lexical-parse-integer::algorithm::algorithm_partial[i8]
    #[cfg_attr(kani, kani::unwind(6))]
    fn parse_i8_r10_agree_len4() { agree_body!(i8, 4, 10, 1, false) }

    /// u16 decimal complete == scan_int, strings len <= 6 over the number alphabet.
    /// @prop C04 C10
    /// @tier thorough
    /// @feat default compact
    /// @bound input length <= 6 bytes over {0-9 + - a Z _ . 0xff}
    /// @fn lexical-parse-integer::algorithm::algorithm_complete[u16]
    /// @timeout 3000
    #[cfg_attr(kani, kani::unwind(8))]
    fn parse_u16_r10_complete_alpha_len6() { complete_body!(u16, 6, 10, 1, false) }

    /// i16 decimal complete == scan_int, strings len <= 6 over the number alphabet.
    /// @prop C04 C10
    /// @tier thorough
    /// @feat default compact
    /// @bound input length <= 6 bytes over {0-9 + - a Z _ . 0xff}
    /// @fn lexical-parse-integer::algorithm::algorithm_complete[i16]
    /// @timeout 3000
    #[cfg_attr(kani, kani::unwind(8))]
    fn parse_i16_r10_complete_alpha_len6() { complete_body!(i16, 6, 10, 1, false) }

    /// u32: [sign +] exactly 10 symbolic digits (4-digit SWAR path, overflow edge 4294967295/6), symbolic no_multi_digit.
    /// @prop C04 C10
    /// @tier deep
    /// @feat default
    /// @bound inputs of the shape [0-9]{10}, both no_multi_digit settings
    /// @fn lexical-parse-integer::algorithm::algorithm_complete[u32] (parse_digits_checked / try_parse_4digits)
    /// @timeout 3000
    #[cfg_attr(kani, kani::unwind(13))]
    fn parse_u32_10digits() { digits_body!(u32, 10, false) }

    /// i32: optional '-' + exactly 10 symbolic digits.
    /// @prop C04 C10
    /// @tier deep
    /// @feat default
    /// @bound inputs of the shape -?[0-9]{10}
    /// @fn lexical-parse-integer::algorithm::algorithm_complete[i32]
    /// @timeout 3000
    #[cfg_attr(kani, kani::unwind(14))]
    fn parse_i32_10digits() { digits_body!(i32, 10, true) }

    /// u64: exactly 20 symbolic digits (8-digit SWAR path, overflow edge), symbolic no_multi_digit.
    /// @prop C04 C10
    /// @tier deep
    /// @feat default
    /// @bound inputs of the shape [0-9]{20}
    /// @fn lexical-parse-integer::algorithm::algorithm_complete[u64] (try_parse_8digits)
    /// @timeout 3600
    #[cfg_attr(kani, kani::unwind(23))]
    fn parse_u64_20digits() { digits_body!(u64, 20, false) }

    /// u32: 6 symbolic digits with leading zeros region (no overflow possible): unchecked SWAR path only.
    /// @prop C04 C10 C16
    /// @tier thorough
    /// @feat default
    /// @bound inputs of the shape [0-9]{6}
    /// @fn lexical-parse-integer::algorithm::algorithm_complete[u32] (parse_digits_unchecked)
    /// @timeout 1800
    #[cfg_attr(kani, kani::unwind(9))]
    fn parse_u32_6digits() { digits_body!(u32, 6, false) }
}

#[cfg(feature = "power-of-two")]
pub mod pow2 {
    use super::*;
    crate::harnesses! {
        /// i8 radix 16, complete parser: all byte strings of length <= 4 (overflow after two digits; signed/unsigned digit budget).
        /// @prop C04 C10
        /// @feat pow2 radix
        /// @bound input length <= 4 bytes (all byte values)
        /// @fn lexical-parse-integer::algorithm::algorithm_complete[i8, radix 16]
        /// @fn lexical-util::num::Integer::overflow_digits
        /// @timeout 1500
        #[cfg_attr(kani, kani::unwind(7))]
        fn parse_i8_r16_complete_len4() { complete_body!(i8, 4, 16, 0, false) }

        /// i8 radix 16, partial parser: all byte strings of length <= 4.
        /// @prop C04 C10 C11
        /// @feat pow2 radix
        /// @bound input length <= 4 bytes (all byte values)
        /// @fn lexical-parse-integer::algorithm::algorithm_partial[i8, radix 16]
        /// @timeout 1500
        #[cfg_attr(kani, kani::unwind(7))]
        fn parse_i8_r16_partial_len4() { partial_body!(i8, 4, 16, 0, false) }

        /// u8 radix 16, complete parser: all byte strings of length <= 4.
        /// @prop C04 C10
        /// @feat pow2 radix
        /// @bound input length <= 4 bytes (all byte values)
        /// @fn lexical-parse-integer::algorithm::algorithm_complete[u8, radix 16]
        /// @timeout 1500
        #[cfg_attr(kani, kani::unwind(7))]
        fn parse_u8_r16_complete_len4() { complete_body!(u8, 4, 16, 0, false) }

        /// i8 radix 2, complete parser: strings of length <= 10 over {0 1 + - 2} (overflow after 7/8 digits).
        /// @prop C04 C10
        /// @tier deep
        /// @feat pow2 radix
        /// @bound input length <= 10 over the number alphabet
        /// @fn lexical-parse-integer::algorithm::algorithm_complete[i8, radix 2]
        /// @timeout 3000
        #[cfg_attr(kani, kani::unwind(13))]
        fn parse_i8_r2_complete_alpha_len10() { complete_body!(i8, 10, 2, 1, false) }

        /// i16 radix 16, complete parser: number-alphabet strings of length <= 6.
        /// @prop C04 C10
        /// @tier thorough
        /// @feat pow2 radix
        /// @bound input length <= 6 over the number alphabet
        /// @fn lexical-parse-integer::algorithm::algorithm_complete[i16, radix 16]
        /// @timeout 3000
        #[cfg_attr(kani, kani::unwind(9))]
        fn parse_i16_r16_complete_alpha_len6() { complete_body!(i16, 6, 16, 1, false) }
    }
}
