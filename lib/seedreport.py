#!/usr/bin/env python3
"""Write seeded/RESULTS.md from seeded/<id>/meta.json and seeded/<id>/check_<prop>.log (produced by lib/seedtest.sh)."""
import glob, json, os, re
base = "/verif/seeded"
rows = []
for d in sorted(glob.glob(base + "/C*")):
    sid = os.path.basename(d)
    try:
        meta = json.load(open(d + "/meta.json"))
    except Exception:
        meta = {}
    summ = re.sub(r'\s+', ' ', meta.get("summary", ""))[:260]
    logs = sorted(glob.glob(d + "/check_*.log"))
    if not logs:
        rows.append((sid, summ, "not run yet", "", ""))
        continue
    for lg in logs:
        prop = re.search(r'check_(C\d+)\.log', lg).group(1)
        txt = open(lg).read()
        m = re.search(r'seed=\S+ prop=\S+ rc=(\d+) wall=(\d+)s', txt)
        rc, wall = (m.group(1), m.group(2)) if m else ("?", "?")
        viol = re.findall(r'^VIOLATION property=\S+ replay=\S+ obligation=(.*)$', txt, re.M)
        obl = "; ".join(sorted({re.sub(r'\s+', ' ', v)[:150] for v in viol}))[:600]
        nofail = sum(1 for v in viol if "no-failing-input-found" in v)
        verdict = "DETECTED" if rc == "1" and viol else ("undecided (exit 2)" if rc == "2" else "MISSED" if rc == "0" else "?")
        rows.append((sid, summ, "%s by ./check %s (quick), %ss" % (verdict, prop, wall),
                     obl, "%d violation line(s), %d without a replayed input" % (len(viol), nofail)))
with open(base + "/RESULTS.md", "w") as f:
    f.write("# Seeded breaking changes: which check catches which change\n\n"
            "Each change was produced by an independent agent that saw only the property text and a scratch worktree of /repo; it\n"
            "compiles, passes the pinned test suite, and its demonstration fails with the change and passes without (re-run by me).\n"
            "Applied with `git -C /repo apply seeded/<id>/patch.diff`, checked with `lib/seedtest.sh`, undone with `git checkout -- .`.\n"
            "The check output is kept in `seeded/<id>/check_<prop>.log`, the replay files in `seeded/<id>/replays/`.\n\n")
    f.write("| seed | change | result | failed obligation(s) | replay |\n|---|---|---|---|---|\n")
    for r in rows:
        f.write("| %s | %s | %s | %s | %s |\n" % tuple(x.replace("|", "\\|") for x in r))
print("wrote", base + "/RESULTS.md", len(rows), "rows")
