#!/bin/sh
# usage: seedtest.sh <seed-id> <prop> [<prop>...]   -- apply /verif/seeded/<id>/patch.diff to /repo, run the checks, undo.
id=$1; shift
cd /repo || exit 2
if [ -n "$(git status --porcelain --untracked-files=no)" ]; then echo "/repo is dirty; refusing"; exit 2; fi
git apply /verif/seeded/$id/patch.diff || { echo "patch does not apply"; exit 2; }
trap 'cd /repo && git checkout -- . ' EXIT
for p in "$@"; do
  cd /verif && ./check $p ${SEED_ARGS} > /tmp/seed_${id}_$p.log 2>&1; rc=$?
  echo "seed=$id prop=$p rc=$rc :: $(grep -E 'VIOLATION|KNOWN-FINDING' /tmp/seed_${id}_$p.log | head -3 | cut -c1-260)"
  tail -1 /tmp/seed_${id}_$p.log
done
