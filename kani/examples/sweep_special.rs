//! Developer aid: native sweep of cmp_special.
use lexical_parse_float::Options;
use lexverif::h_special::cmp_special;
fn main() {
    let alpha: &[u8] = b"nNaAiIfFtTyeEr1x";
    let opts = Options::new();
    let (mut n, mut bad) = (0u64, 0u64);
    for len in 0..=5usize {
        let mut idx = vec![0usize; len];
        loop {
            let s: Vec<u8> = idx.iter().map(|&i| alpha[i]).collect();
            for neg in [false, true] {
                n += 1;
                if let Err(e) = cmp_special::<{ lexical_util::format::STANDARD }>(&s, neg, &opts, false, true) { bad += 1; if bad < 10 { println!("{:?} neg={neg}: {e}", String::from_utf8_lossy(&s)); } }
            }
            let mut k = 0;
            while k < len { idx[k] += 1; if idx[k] < alpha.len() { break; } idx[k] = 0; k += 1; }
            if k == len { break; }
        }
    }
    for s in [&b"infinity"[..], b"INFINITY", b"infinit", b"infinityx", b"nan", b"NaN", b"nanx", b"inf", b"infx"] {
        for neg in [false, true] { n += 1; if let Err(e) = cmp_special::<{ lexical_util::format::STANDARD }>(s, neg, &opts, false, true) { bad += 1; println!("{:?}: {e}", String::from_utf8_lossy(s)); } }
    }
    println!("{n} cases, {bad} disagreements");
}
