//! Reference specifications (executable, deliberately naive).

/// Digit character for value d < 36.
pub fn digit_char(d: u32) -> u8 {
    if d < 10 { b'0' + d as u8 } else { b'A' + (d - 10) as u8 }
}

/// Value of byte c as a digit in radix r, if any.
pub fn digit_val(c: u8, r: u32) -> Option<u32> {
    let v = match c {
        b'0'..=b'9' => (c - b'0') as u32,
        b'a'..=b'z' => (c - b'a') as u32 + 10,
        b'A'..=b'Z' => (c - b'A') as u32 + 10,
        _ => return None,
    };
    if v < r { Some(v) } else { None }
}

/// Number of digits of v in radix r (1 for zero).
pub fn ndigits(mut v: u128, r: u32) -> usize {
    let mut n = 1;
    while v >= r as u128 { v /= r as u128; n += 1; }
    n
}

/// Canonical numeral of v in radix r written into out[..n]; returns n.
pub fn numeral(v: u128, r: u32, out: &mut [u8; 128]) -> usize {
    let n = ndigits(v, r);
    let mut x = v;
    let mut i = n;
    while i > 0 {
        i -= 1;
        out[i] = digit_char((x % r as u128) as u32);
        x /= r as u128;
    }
    n
}
