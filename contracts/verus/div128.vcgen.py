"""Contract unit U1/U2: lexical-util mul.rs::mulhi and div128.rs.

Generated per feature set because the set of `u128_divrem_N` wrappers that exist
(and the dispatcher's match arms) depends on `radix` / `power-of-two`.
The numeric literals of each wrapper are *copied from the current source text*
into that wrapper's `requires`-side facts; nothing is recomputed in Python.
"""
import re

PRELUDE = r'''
use vstd::arithmetic::power2::*;
use vstd::arithmetic::div_mod::*;
use vstd::arithmetic::mul::*;
use vstd::bits::*;
use vstd::std_specs::bits::*;

pub open spec fn P64() -> nat { 0x1_0000_0000_0000_0000 }
pub open spec fn P128() -> nat { (0x1_0000_0000_0000_0000nat * 0x1_0000_0000_0000_0000nat) as nat }
pub open spec fn pw(b: nat, e: nat) -> nat decreases e {
    if e == 0 { 1 } else if e % 2 == 0 { let h = pw(b, e / 2); h * h } else { b * pw(b, (e - 1) as nat) }
}

// Granlund-Montgomery validity of (factor, shr) for divisor d over all n < 2^128.
pub open spec fn gm_valid(d: nat, factor: nat, shr: nat) -> bool {
    d > 0 && shr < 64 && P128() * pow2(shr) <= factor * d && factor * d <= P128() * pow2(shr) + pow2(shr)
}
// validity of the "n < fast" 64-bit shortcut
pub open spec fn fast_valid(d: nat, fast: nat, fast_shr: nat) -> bool {
    fast_shr < 64 && d % pow2(fast_shr) == 0 && d >= pow2(fast_shr) && fast <= P64() * pow2(fast_shr)
}

proof fn lemma_pw2(e: nat) ensures pw(2, e) == pow2(e) decreases e
{
    reveal(pow2);
    if e == 0 { lemma2_to64(); }
    else if e % 2 == 0 { lemma_pw2(e / 2); lemma_pow2_adds(e / 2, e / 2); assert(e / 2 + e / 2 == e); }
    else { lemma_pw2((e - 1) as nat); lemma_pow2_adds(1, (e - 1) as nat); lemma2_to64(); }
}
proof fn lemma_gm(n: nat, d: nat, m: nat, s: nat)
    requires gm_valid(d, m, s), n < P128()
    ensures (n * m) / (P128() * pow2(s)) == n / d
{
    let k = P128() * pow2(s);
    lemma_pow2_pos(s);
    assert(k > 0) by(nonlinear_arith) requires k == P128() * pow2(s), pow2(s) > 0, P128() > 0;
    let q = n / d; let r = n % d;
    lemma_fundamental_div_mod(n as int, d as int);
    assert(n == d * q + r);
    let e = (m * d - k) as nat;
    assert(e <= pow2(s));
    assert(n * m * d == n * k + n * e) by(nonlinear_arith) requires m * d == k + e;
    assert(q * k * d <= n * m * d) by(nonlinear_arith) requires n * m * d == n * k + n * e, n == d * q + r, r >= 0, e >= 0, k > 0;
    assert(q * k <= n * m) by(nonlinear_arith) requires q * k * d <= n * m * d, d > 0;
    assert(n * e < k) by(nonlinear_arith) requires n < P128(), e <= pow2(s), k == P128() * pow2(s), pow2(s) > 0;
    assert(n * m * d < (q + 1) * k * d) by(nonlinear_arith) requires n * m * d == n * k + n * e, n * e < k, n == d * q + r, r < d, k > 0;
    assert(n * m < (q + 1) * k) by(nonlinear_arith) requires n * m * d < (q + 1) * k * d, d > 0;
    let rem = (n * m - q * k) as int;
    assert((q + 1) * k == q * k + k) by(nonlinear_arith);
    assert(0 <= rem < k);
    assert((n*m) as int == (k as int) * (q as int) + rem) by(nonlinear_arith) requires n * m == q * k + rem;
    lemma_fundamental_div_mod_converse((n * m) as int, k as int, q as int, rem);
}

// floor(floor(n / 2^a) / (d / 2^a)) == floor(n / d) when 2^a | d
proof fn lemma_fast(n: nat, d: nat, a: nat)
    requires d % pow2(a) == 0, d >= pow2(a)
    ensures (n / pow2(a)) / (d / pow2(a)) == n / d
{
    lemma_pow2_pos(a);
    let p = pow2(a);
    let dd = d / p;
    lemma_fundamental_div_mod(d as int, p as int);
    assert(d == p * dd);
    assert(dd > 0) by(nonlinear_arith) requires d == p * dd, d >= p, p > 0;
    lemma_div_denominator(n as int, p as int, dd as int);
}

proof fn lemma_rem_fits(n: nat, d: nat)
    requires 0 < d < P64()
    ensures n - (n / d) * d == n % d, n % d < P64(), (n / d) * d <= n
{
    lemma_fundamental_div_mod(n as int, d as int);
    assert((n / d) * d == d * (n / d)) by(nonlinear_arith);
}

// ((n*m) / 2^128) >> s == (n*m) / (2^128 * 2^s)
proof fn lemma_mulhi_shr(n: u128, m: u128, s: u32)
    requires s < 64
    ensures ({ let h = ((n as nat * m as nat) / P128()) as u128;
               h as nat == (n as nat * m as nat) / P128() && (h >> s) as nat == (n as nat * m as nat) / (P128() * pow2(s as nat)) })
{
    let x = n as nat * m as nat;
    assert(x < P128() * P128()) by(nonlinear_arith) requires x == n as nat * m as nat, (n as nat) < P128(), (m as nat) < P128();
    assert(x / P128() < P128()) by(nonlinear_arith) requires x < P128() * P128(), P128() > 0;
    let h = (x / P128()) as u128;
    lemma_u128_shr_is_div(h, s as u128);
    lemma_pow2_pos(s as nat);
    lemma_div_denominator(x as int, P128() as int, pow2(s as nat) as int);
}

proof fn lemma_mask_mod(lo: u64, mask: u64, shr: nat)
    requires 0 < shr < 64, mask as nat == pow2(shr) - 1
    ensures (mask & lo) as nat == (lo as nat) % pow2(shr)
{
    lemma_u64_low_bits_mask_is_mod(lo, shr);
    lemma_pow2_strictly_increases(shr, 64); lemma2_to64();
    assert(low_bits_mask(shr) as u64 == mask);
    assert((mask & lo) == (lo & mask)) by(bit_vector);
}
'''

MULHI = r'''
fn mul::mulhi
  sub /<Full, Half>/ => //
  sub /where\s+Full: UnsignedInteger, Half: UnsignedInteger/ => //
  sub* /\bFull\b/ => /u128/
  sub* /Half::BITS as i32/ => /64/
  sub* /as_cast\(Half::MAX\)/ => /(u64::MAX as u128)/
  spec <<<
    ensures ret as nat == (x as nat * y as nat) / P128()
>>>
  after /let y0 = / <<<
    proof {
        assert(x1 == x / 0x1_0000_0000_0000_0000 && x0 == x % 0x1_0000_0000_0000_0000) by(bit_vector)
            requires x1 == x >> 64, x0 == x & 0xffff_ffff_ffff_ffffu128;
        assert(y1 == y / 0x1_0000_0000_0000_0000 && y0 == y % 0x1_0000_0000_0000_0000) by(bit_vector)
            requires y1 == y >> 64, y0 == y & 0xffff_ffff_ffff_ffffu128;
        assert(x0 * y0 <= 0xffff_ffff_ffff_ffff * 0xffff_ffff_ffff_ffff) by(nonlinear_arith) requires x0 <= 0xffff_ffff_ffff_ffff, y0 <= 0xffff_ffff_ffff_ffff;
        assert(x0 * y1 <= 0xffff_ffff_ffff_ffff * 0xffff_ffff_ffff_ffff) by(nonlinear_arith) requires x0 <= 0xffff_ffff_ffff_ffff, y1 <= 0xffff_ffff_ffff_ffff;
        assert(x1 * y0 <= 0xffff_ffff_ffff_ffff * 0xffff_ffff_ffff_ffff) by(nonlinear_arith) requires y0 <= 0xffff_ffff_ffff_ffff, x1 <= 0xffff_ffff_ffff_ffff;
        assert(x1 * y1 <= 0xffff_ffff_ffff_ffff * 0xffff_ffff_ffff_ffff) by(nonlinear_arith) requires x1 <= 0xffff_ffff_ffff_ffff, y1 <= 0xffff_ffff_ffff_ffff;
    }
>>>
  after /let w0 = / <<<
    proof { assert(w0 >> 64 <= 0xffff_ffff_ffff_ffffu128) by(bit_vector); }
>>>
  after /let w2 = / <<<
    proof {
        assert(w0 >> 64 == w0 / 0x1_0000_0000_0000_0000) by(bit_vector);
        assert(w2 == m / 0x1_0000_0000_0000_0000 && w1 == m % 0x1_0000_0000_0000_0000) by(bit_vector)
            requires w2 == m >> 64, w1 == m & 0xffff_ffff_ffff_ffffu128;
    }
>>>
  after /let w3 = / <<<
    proof {
        let t = (x1 * y0 + w1) as u128;
        assert(t >> 64 == t / 0x1_0000_0000_0000_0000) by(bit_vector);
        let B = P64() as int;
        let X0 = x0 as int; let X1 = x1 as int; let Y0 = y0 as int; let Y1 = y1 as int;
        assert((x as int) * (y as int) == (X1*B + X0) * (Y1*B+Y0));
        assert((X1*B + X0) * (Y1*B+Y0) == (X1*B)*(Y1*B+Y0) + X0*(Y1*B+Y0)) by(nonlinear_arith);
        assert((X1*B)*(Y1*B+Y0) == X1*Y1*B*B + X1*Y0*B) by(nonlinear_arith);
        assert(X0*(Y1*B+Y0) == X0*Y1*B + X0*Y0) by(nonlinear_arith);
        assert((X1*Y0 + X0*Y1)*B == X1*Y0*B + X0*Y1*B) by(nonlinear_arith);
        let W0 = w0 as int; let M = m as int; let W1 = w1 as int; let W2 = w2 as int; let W3 = w3 as int;
        let lo = W0 % B;
        let T = X1*Y0 + W1;
        assert((x as int) * (y as int) == (X1*Y1 + W2 + W3)*(B*B) + ((T % B)*B + lo)) by(nonlinear_arith)
            requires (x as int) * (y as int) == X1*Y1*B*B + (X1*Y0 + X0*Y1)*B + X0*Y0,
              W0 == X0*Y0, M == X0*Y1 + W0/B, W1 == M % B, W2 == M / B, W3 == T / B, T == X1*Y0 + W1, lo == W0 % B, B == 0x1_0000_0000_0000_0000;
        assert(0 <= (T % B)*B + lo < B*B) by(nonlinear_arith) requires B == 0x1_0000_0000_0000_0000, lo == W0 % B;
        assert(B*B == P128());
        let hi = X1*Y1 + W2 + W3;
        lemma_fundamental_div_mod_converse((x as int) * (y as int), P128() as int, hi, (T % B)*B + lo);
    }
>>>
end
'''

POW2 = r'''
fn div128::pow2_u128_divrem
  sub /\bconst fn\b/ => /fn/
  sub /mask & n as u64/ => /mask & #[verifier::truncate] (n as u64)/
  spec <<<
    requires 0 < shr <= 64, mask as nat == pow2(shr as nat) - 1
    ensures ret.0 as nat == n as nat / pow2(shr as nat), ret.1 as nat == n as nat % pow2(shr as nat)
>>>
  after /let rem = / <<<
    proof {
        lemma_u128_shr_is_div(n, shr as u128);
        lemma2_to64();
        let lo = #[verifier::truncate] (n as u64);
        assert(lo as u128 == n % 0x1_0000_0000_0000_0000u128) by(bit_vector) requires lo == #[verifier::truncate] (n as u64);
        if shr < 64 {
            lemma_pow2_adds(shr as nat, (64 - shr) as nat);
            lemma_pow2_pos(shr as nat); lemma_pow2_pos((64 - shr) as nat);
            assert(pow2(shr as nat) * pow2((64-shr) as nat) == 0x1_0000_0000_0000_0000nat);
            lemma_mod_mod(n as int, pow2(shr as nat) as int, pow2((64-shr) as nat) as int);
            assert((lo as nat) % pow2(shr as nat) == (n as nat) % pow2(shr as nat));
            lemma_mask_mod(lo, mask, shr as nat);
        } else {
            assert(mask & lo == lo) by(bit_vector) requires mask == 0xffff_ffff_ffff_ffffu64;
            assert(pow2(64) == 0x1_0000_0000_0000_0000nat);
        }
    }
>>>
end
'''

FAST = r'''
fn div128::fast_u128_divrem
  sub /mulhi::<u128, u64>/ => /mulhi/
  sub /\(\(n >> fast_shr\) as u64 \/ \(d >> fast_shr\)\) as u128/ => /((#[verifier::truncate] ((n >> fast_shr) as u64)) / (d >> fast_shr)) as u128/
  sub /\(n - quot \* d as u128\) as u64/ => /#[verifier::truncate] ((n - quot * d as u128) as u64)/
  spec <<<
    requires
        0 < d, gm_valid(d as nat, factor as nat, factor_shr as nat),
        fast_valid(d as nat, fast as nat, fast_shr as nat),
    ensures ret.0 as nat == n as nat / d as nat, ret.1 as nat == n as nat % d as nat
>>>
  before /let quot = / <<<
    proof {
        lemma_u128_shr_is_div(n, fast_shr as u128);
        lemma_u64_shr_is_div(d, fast_shr as u64);
        lemma_pow2_pos(fast_shr as nat);
        lemma_fast(n as nat, d as nat, fast_shr as nat);
        lemma_gm(n as nat, d as nat, factor as nat, factor_shr as nat);
        lemma_rem_fits(n as nat, d as nat);
        lemma2_to64();
        if n < fast {
            // n / 2^a < 2^64
            assert((n as nat) / pow2(fast_shr as nat) < P64()) by(nonlinear_arith)
                requires (n as nat) < P64() * pow2(fast_shr as nat), pow2(fast_shr as nat) > 0;
            let a = pow2(fast_shr as nat);
            assert(d as nat / a > 0) by(nonlinear_arith) requires d as nat >= a, a > 0;
        }
    }
>>>
  after /let quot = / <<<
    proof {
        lemma_pow2_pos(factor_shr as nat);
        assert(P128() > 0);
        if n >= fast {
            lemma_mulhi_shr(n, factor, factor_shr);
            assert(quot as nat == n as nat / d as nat);
        } else {
            assert(quot as nat == n as nat / d as nat);
        }
    }
>>>
end
'''

MODERATE = r'''
fn div128::moderate_u128_divrem
  sub /mulhi::<u128, u64>/ => /mulhi/
  sub /\(n - quot \* d as u128\) as u64/ => /#[verifier::truncate] ((n - quot * d as u128) as u64)/
  spec <<<
    requires 0 < d, gm_valid(d as nat, factor as nat, factor_shr as nat),
    ensures ret.0 as nat == n as nat / d as nat, ret.1 as nat == n as nat % d as nat
>>>
  after /let quot = / <<<
    proof {
        lemma_gm(n as nat, d as nat, factor as nat, factor_shr as nat);
        lemma_rem_fits(n as nat, d as nat);
        lemma_mulhi_shr(n, factor, factor_shr);
        assert(quot as nat == n as nat / d as nat);
    }
>>>
end
'''


def radices(features):
    fs = set(features.split(','))
    if 'radix' in fs:
        return list(range(2, 37))
    if 'power-of-two' in fs:
        return [2, 4, 8, 10, 16, 32]
    return [10]


def parse_wrappers(repo):
    src = open(repo + '/lexical-util/src/div128.rs').read()
    out = {}
    for m in re.finditer(r'fn u128_divrem_(\d+)\(n: u128\) -> \(u128, u64\) \{\s*(\w+)\(([^)]*)\)\s*\}', src):
        args = [a.strip() for a in m.group(3).replace('\n', ' ').split(',') if a.strip()]
        out[int(m.group(1))] = (m.group(2), args)
    return out


def generate(ctx):
    feats = ctx.get('FEATURES', 'radix')
    repo = ctx['REPO']
    wr = parse_wrappers(repo)
    rs = radices(feats)
    parts = ['unit div128-%s' % (feats.replace(',', '_') or 'default'), 'crate lexical-util',
             'features %s' % ','.join(sorted((set(feats.split(',')) | {'write-integers'}) - {''})),
             'prelude <<<', PRELUDE]
    # spec-level divisor table copied from the wrappers' literals
    arms = []
    for r in rs:
        kind, args = wr[r]
        if kind == 'pow2_u128_divrem':
            arms.append('if radix == %d { pow2(%s) }' % (r, args[2]))
        else:
            arms.append('if radix == %d { %snat }' % (r, args[1]))
    parts.append('pub open spec fn divisor_of(radix: u32) -> nat { %s else { 0 } }' % ' else '.join(arms))
    parts.append('pub open spec fn radix_ok(radix: u32) -> bool { %s }' % ' || '.join('radix == %d' % r for r in rs))
    need_slow = any(wr[r][0] == 'slow_u128_divrem' for r in rs)
    if need_slow:
        parts.append(SLOW_PRELUDE)
    parts.append('>>>')
    parts += [MULHI, POW2, FAST, MODERATE]
    if need_slow:
        parts.append(SLOW)
    for r in rs:
        kind, args = wr[r]
        if kind == 'pow2_u128_divrem':
            hint = '''  before /pow2_u128_divrem\\(/ <<<
    proof { lemma2_to64(); assert(pw(2, %s) == 0x%xnat) by(compute_only); lemma_pw2(%s); }
>>>''' % (args[2], 1 << int(args[2]), args[2])
            ens = 'ensures ret.0 as nat == n as nat / pow2(%s), ret.1 as nat == n as nat %% pow2(%s)' % (args[2], args[2])
            sub = '  sub /\\bconst fn\\b/ => /fn/\n'
        elif kind == 'fast_u128_divrem':
            d, fast, fshr, factor, shr = args[1:]
            hint = '''  before /fast_u128_divrem\\(/ <<<
    proof {
        lemma2_to64();
        assert(P128() * 0x%xnat <= %snat * %snat && %snat * %snat <= P128() * 0x%xnat + 0x%xnat) by(compute_only);
        assert(%snat %% 0x%xnat == 0 && %snat >= 0x%xnat && %snat <= P64() * 0x%xnat) by(compute_only);
        assert(pw(2, %s) == 0x%xnat && pw(2, %s) == 0x%xnat) by(compute_only);
        lemma_pw2(%s); lemma_pw2(%s);
    }
>>>''' % (1 << int(shr), factor, d, factor, d, 1 << int(shr), 1 << int(shr),
          d, 1 << int(fshr), d, 1 << int(fshr), fast, 1 << int(fshr),
          shr, 1 << int(shr), fshr, 1 << int(fshr), shr, fshr)
            ens = 'ensures ret.0 as nat == n as nat / %snat, ret.1 as nat == n as nat %% %snat' % (d, d)
            sub = ''
        elif kind == 'moderate_u128_divrem':
            d, factor, shr = args[1:]
            hint = '''  before /moderate_u128_divrem\\(/ <<<
    proof {
        lemma2_to64();
        assert(P128() * 0x%xnat <= %snat * %snat && %snat * %snat <= P128() * 0x%xnat + 0x%xnat) by(compute_only);
        assert(pw(2, %s) == 0x%xnat) by(compute_only);
        lemma_pw2(%s);
    }
>>>''' % (1 << int(shr), factor, d, factor, d, 1 << int(shr), 1 << int(shr), shr, 1 << int(shr), shr)
            ens = 'ensures ret.0 as nat == n as nat / %snat, ret.1 as nat == n as nat %% %snat' % (d, d)
            sub = ''
        else:
            d, ctlz = args[1:]
            c = int(ctlz)
            hint = '''  before /slow_u128_divrem\\(/ <<<
    proof {
        lemma2_to64();
        assert(pw(2, %d) <= %snat && %snat < pw(2, %d)) by(compute_only);
        lemma_pw2(%d); lemma_pw2(%d);
        lemma_lz_unique(%su64, %d);
    }
>>>''' % (63 - c, d, d, 64 - c, 63 - c, 64 - c, d, c)
            ens = 'ensures ret.0 as nat == n as nat / %snat, ret.1 as nat == n as nat %% %snat' % (d, d)
            sub = ''
        parts.append('fn div128::u128_divrem_%d\n%s  spec <<<\n    %s\n>>>\n%s\nend\n' % (r, sub, ens, hint))
    parts.append('''fn div128::u128_divrem
  sub /debug_assert_radix\\(radix\\);/ => /assert(2 <= radix && radix <= 36);/
  spec <<<
    requires radix_ok(radix)
    ensures ret.0 as nat == n as nat / divisor_of(radix), ret.1 as nat == n as nat % divisor_of(radix)
>>>
end
''')
    return '\n'.join(parts)


SLOW_PRELUDE = r'''
pub open spec fn P127() -> nat { 0x8000_0000_0000_0000_0000_0000_0000_0000nat }

proof fn lemma_p127() ensures pow2(127) == P127(), pow2(128) == 2 * P127(), pow2(63) == 0x8000_0000_0000_0000nat {
    lemma2_to64();
    lemma_pow2_adds(32, 31);
    assert(0x1_0000_0000nat * 0x8000_0000nat == 0x8000_0000_0000_0000nat) by(compute_only);
    lemma_pow2_adds(64, 63);
    assert(0x1_0000_0000_0000_0000nat * 0x8000_0000_0000_0000nat == P127()) by(compute_only);
    lemma_pow2_adds(1, 127);
}

// leading zeros characterisation: 2^(63 - lz) <= x < 2^(64 - lz) for x != 0
proof fn lemma_lz(x: u64) requires x != 0
    ensures 0 <= u64_leading_zeros(x) <= 63,
        pow2((63 - u64_leading_zeros(x)) as nat) <= x as nat,
        (x as nat) < pow2((64 - u64_leading_zeros(x)) as nat),
    decreases x
{
    reveal(u64_leading_zeros);
    axiom_u64_leading_zeros(x);
    if x == 1 {
        assert(u64_leading_zeros(0) == 64);
        assert(u64_leading_zeros(1) == 63);
        lemma2_to64();
    } else {
        let h = x / 2;
        lemma_lz(h);
        let l = u64_leading_zeros(x);
        assert(u64_leading_zeros(h) == l + 1);
        lemma_pow2_adds(1, (62 - l) as nat);
        lemma_pow2_adds(1, (63 - l) as nat);
        lemma2_to64();
        assert(pow2((63 - l) as nat) == 2 * pow2((62 - l) as nat));
        assert(pow2((64 - l) as nat) == 2 * pow2((63 - l) as nat));
    }
}

proof fn lemma_pow2_mono(a: nat, b: nat) requires a <= b ensures pow2(a) <= pow2(b) {
    lemma_pow2_adds(a, (b - a) as nat); lemma_pow2_pos((b - a) as nat); lemma_pow2_pos(a);
    assert(pow2(a) * 1 <= pow2(a) * pow2((b - a) as nat)) by(nonlinear_arith) requires pow2((b - a) as nat) >= 1;
}

/// the leading-zero count is determined by the binade: used to check the `d_ctlz` literal of each wrapper
proof fn lemma_lz_unique(x: u64, c: nat)
    requires c <= 63, pow2((63 - c) as nat) <= x as nat, (x as nat) < pow2((64 - c) as nat)
    ensures u64_leading_zeros(x) == c
{
    lemma_pow2_pos((63 - c) as nat);
    lemma_lz(x);
    let l = u64_leading_zeros(x) as nat;
    if l < c { lemma_pow2_mono((64 - c) as nat, (63 - l) as nat); }
    if l > c { lemma_pow2_mono((64 - l) as nat, (63 - c) as nat); }
}

/// loop invariant of the restoring division: after consuming the top (128 - rem) bits of n:
///   n / 2^rem == qq * d + r, r < d, and q holds the unconsumed bits of n on top and qq / 2 below (carry == qq % 2).
pub open spec fn sinv(n: nat, d: nat, rem: nat, q: nat, r: nat, carry: nat, qq: nat) -> bool {
    &&& rem <= 127
    &&& r < d
    &&& n / pow2(rem) == qq * d + r
    &&& carry == qq % 2
    &&& q == (n % pow2(rem)) * pow2((128 - rem) as nat) + qq / 2
    &&& qq < pow2((128 - rem) as nat)
}

proof fn lemma_sstep(n: nat, d: nat, rem: nat, q: nat, r: nat, carry: nat, qq: nat, top: nat, c2: nat)
    requires sinv(n, d, rem, q, r, carry, qq), rem >= 1, n < pow2(128), 0 < d < pow2(64),
        top == q / P127(), c2 == (if 2 * r + top >= d { 1nat } else { 0nat }),
    ensures
        top <= 1,
        sinv(n, d, (rem - 1) as nat, (2 * (q % P127()) + carry) as nat, (2 * r + top - c2 * d) as nat, c2, 2 * qq + c2),
{
    let rm = (rem - 1) as nat;
    let lo = n % pow2(rem);
    let w = (128 - rem) as nat;
    lemma2_to64();
    lemma_pow2_pos(rem); lemma_pow2_pos(rm); lemma_pow2_pos(w); lemma_pow2_pos(w + 1);
    lemma_pow2_adds(1, rm); lemma_pow2_adds(1, w); lemma_pow2_adds(rem, w); lemma_pow2_adds(rm, w + 1);
    assert(pow2(1) == 2);
    assert(pow2(rem) == 2 * pow2(rm));
    assert(pow2(w + 1) == 2 * pow2(w));
    lemma_p127();
    lemma_pow2_adds(rm, w);
    assert(pow2(rm) * pow2(w) == P127());
    let b = lo / pow2(rm);
    let lo2 = lo % pow2(rm);
    lemma_fundamental_div_mod(lo as int, pow2(rm) as int);
    lemma_mod_bound(n as int, pow2(rem) as int);
    assert(b <= 1) by {
        lemma_div_is_ordered(lo as int, (pow2(rem) - 1) as int, pow2(rm) as int);
        assert((2 * pow2(rm) - 1) / pow2(rm) as int <= 1) by {
            lemma_fundamental_div_mod_converse((2 * pow2(rm) - 1) as int, pow2(rm) as int, 1, (pow2(rm) - 1) as int);
        }
    }
    lemma_mod_bound(lo as int, pow2(rm) as int);
    lemma_fundamental_div_mod(n as int, pow2(rem) as int);
    let hi = n / pow2(rem);
    assert(n == (2 * hi + b) * pow2(rm) + lo2) by(nonlinear_arith)
        requires n == pow2(rem) * hi + lo, pow2(rem) == 2 * pow2(rm), lo == pow2(rm) * b + lo2;
    lemma_fundamental_div_mod_converse(n as int, pow2(rm) as int, (2 * hi + b) as int, lo2 as int);
    assert(n / pow2(rm) == 2 * hi + b);
    assert(n % pow2(rm) == lo2);
    let rest = lo2 * pow2(w) + qq / 2;
    assert(qq / 2 <= qq);
    assert(rest < P127()) by(nonlinear_arith)
        requires rest == lo2 * pow2(w) + qq / 2, lo2 + 1 <= pow2(rm), qq / 2 < pow2(w), pow2(rm) * pow2(w) == P127();
    assert(q == P127() * b + rest) by(nonlinear_arith)
        requires q == lo * pow2(w) + qq / 2, lo == pow2(rm) * b + lo2, rest == lo2 * pow2(w) + qq / 2, pow2(rm) * pow2(w) == P127();
    lemma_fundamental_div_mod_converse(q as int, P127() as int, b as int, rest as int);
    assert(top == b);
    assert(q % P127() == rest);
    let r1 = 2 * r + top;
    let qq2 = 2 * qq + c2;
    assert(n / pow2(rm) == qq2 * d + (r1 - c2 * d)) by(nonlinear_arith)
        requires n / pow2(rm) == 2 * hi + b, hi == qq * d + r, r1 == 2 * r + b, qq2 == 2 * qq + c2;
    assert(r1 < 2 * d);
    assert(qq2 % 2 == c2) by { lemma_fundamental_div_mod_converse(qq2 as int, 2, qq as int, c2 as int); }
    assert(qq2 / 2 == qq) by { lemma_fundamental_div_mod_converse(qq2 as int, 2, qq as int, c2 as int); }
    assert(carry + 2 * (qq / 2) == qq) by { lemma_fundamental_div_mod(qq as int, 2); }
    assert(2 * rest + carry == lo2 * pow2(w + 1) + qq2 / 2) by(nonlinear_arith)
        requires rest == lo2 * pow2(w) + qq / 2, pow2(w + 1) == 2 * pow2(w), carry + 2 * (qq / 2) == qq, qq2 / 2 == qq;
    assert(qq2 < pow2(w + 1));
    assert((128 - rm) as nat == w + 1);
}

/// x << s == x * 2^s when the product fits (vstd has this lemma for u8..u64 only)
proof fn lemma_shl_mul(x: u128, s: nat)
    requires s < 128, (x as nat) * pow2(s) < 0x1_0000_0000_0000_0000nat * 0x1_0000_0000_0000_0000nat,
    ensures (x << (s as u32)) as nat == (x as nat) * pow2(s),
    decreases s
{
    lemma2_to64();
    if s == 0 {
        assert(x << 0u32 == x) by(bit_vector);
        assert((x as nat) * 1 == x as nat) by(nonlinear_arith);
    } else {
        let t = (s - 1) as nat;
        lemma_pow2_adds(1, t); lemma_pow2_pos(t);
        assert(pow2(s) == 2 * pow2(t));
        assert((x as nat) * pow2(t) * 2 == (x as nat) * pow2(s)) by(nonlinear_arith) requires pow2(s) == 2 * pow2(t);
        lemma_shl_mul(x, t);
        let y = (x << (t as u32)) as u128;
        lemma_p127();
        assert(y < 0x8000_0000_0000_0000_0000_0000_0000_0000u128);
        let su = s as u32; let tu = t as u32;
        assert(x << su == (x << tu) << 1u32) by(bit_vector) requires su == tu + 1, su < 128;
        assert((y << 1u32) == y * 2) by(bit_vector) requires y < 0x8000_0000_0000_0000_0000_0000_0000_0000u128;
    }
}

/// the branch-free compare: s = ((d - r - 1) as i128) >> 127 is all-ones iff r >= d
proof fn lemma_smask(d: u64, r: u128, x: u128, s: i128, m: u128, carry: u64)
    requires r < 0x8000_0000_0000_0000_0000_0000_0000_0000u128, d > 0,
        x == (d as u128).wrapping_sub(r).wrapping_sub(1u128),
        s == ((x as i128) >> 127), carry == ((s & 1) as u64), m == (s as u128),
    ensures r >= d as u128 ==> carry == 1 && (d as u128) & m == d as u128,
            r < d as u128 ==> carry == 0 && (d as u128) & m == 0,
{
    let dd = d as u128;
    assert(r >= dd ==> x >= 0x8000_0000_0000_0000_0000_0000_0000_0000u128);
    assert(r < dd ==> x < 0x8000_0000_0000_0000_0000_0000_0000_0000u128);
    assert(x >= 0x8000_0000_0000_0000_0000_0000_0000_0000u128 ==> m == 0xffff_ffff_ffff_ffff_ffff_ffff_ffff_ffffu128 && carry == 1u64) by(bit_vector)
        requires s == ((x as i128) >> 127), carry == ((s & 1) as u64), m == (s as u128);
    assert(x < 0x8000_0000_0000_0000_0000_0000_0000_0000u128 ==> m == 0u128 && carry == 0u64) by(bit_vector)
        requires s == ((x as i128) >> 127), carry == ((s & 1) as u64), m == (s as u128);
    assert(dd & 0xffff_ffff_ffff_ffff_ffff_ffff_ffff_ffffu128 == dd) by(bit_vector);
    assert(dd & 0u128 == 0u128) by(bit_vector);
}

proof fn lemma_sinit(n: u128, d: u64, d_ctlz: u32, high: u64, sr: u32, q: u128, r: u128)
    requires d >= 2, d_ctlz == u64_leading_zeros(d), high == (n >> 64) as u64, high != 0,
        sr == 65 + d_ctlz - u64_leading_zeros(high), 2 <= sr <= 127,
        q == n << ((128 - sr) as u32), r == n >> sr,
    ensures sinv(n as nat, d as nat, sr as nat, q as nat, r as nat, 0, 0),
{
    let hlz = u64_leading_zeros(high);
    let k = (128 - sr) as u32;
    lemma_lz(d); lemma_lz(high); lemma2_to64(); lemma_p127();
    lemma_pow2_adds(64, 64);
    lemma_pow2_pos(sr as nat); lemma_pow2_pos(k as nat);
    lemma_u128_shr_is_div(n, sr as u128);
    lemma_u128_shr_is_div(n, 64);
    let low = (n as nat) % pow2(64);
    lemma_fundamental_div_mod(n as int, pow2(64) as int);
    lemma_mod_bound(n as int, pow2(64) as int);
    assert(high as nat == (n as nat) / pow2(64));
    lemma_pow2_adds((64 - hlz) as nat, 64);
    assert((n as nat) < pow2((128 - hlz) as nat)) by(nonlinear_arith)
        requires n as nat == pow2(64) * (high as nat) + low, low < pow2(64), (high as nat) + 1 <= pow2((64 - hlz) as nat),
                 pow2((128 - hlz) as nat) == pow2((64 - hlz) as nat) * pow2(64);
    lemma_pow2_adds(sr as nat, (63 - d_ctlz) as nat);
    assert((128 - hlz) as nat == sr as nat + (63 - d_ctlz) as nat);
    assert((n as nat) / pow2(sr as nat) < pow2((63 - d_ctlz) as nat)) by {
        lemma_div_by_multiple_is_strongly_ordered(n as int, (pow2(sr as nat) * pow2((63 - d_ctlz) as nat)) as int, pow2((63 - d_ctlz) as nat) as int, pow2(sr as nat) as int);
        lemma_div_multiples_vanish(pow2((63 - d_ctlz) as nat) as int, pow2(sr as nat) as int);
        assert(pow2(sr as nat) * pow2((63 - d_ctlz) as nat) == pow2((63 - d_ctlz) as nat) * pow2(sr as nat)) by(nonlinear_arith);
    }
    assert((r as nat) < d as nat);
    let hi = (n >> sr) as u128;
    let xn = (n as nat) % pow2(sr as nat);
    lemma_fundamental_div_mod(n as int, pow2(sr as nat) as int);
    lemma_mod_bound(n as int, pow2(sr as nat) as int);
    lemma_pow2_adds(sr as nat, k as nat);
    assert(pow2(128) == 0x1_0000_0000_0000_0000nat * 0x1_0000_0000_0000_0000nat);
    assert((hi as nat) * pow2(sr as nat) <= n as nat) by(nonlinear_arith)
        requires n as nat == pow2(sr as nat) * (hi as nat) + xn;
    lemma_shl_mul(hi, sr as nat);
    let hs = (hi << sr) as u128;
    assert(hs as nat == (hi as nat) * pow2(sr as nat));
    let x = (n - hs) as u128;
    assert(x as nat == xn) by(nonlinear_arith)
        requires n as nat == pow2(sr as nat) * (hi as nat) + xn, hs as nat == (hi as nat) * pow2(sr as nat), x as nat == n as nat - hs as nat;
    assert((x as nat) * pow2(k as nat) < pow2(128)) by(nonlinear_arith)
        requires (x as nat) + 1 <= pow2(sr as nat), pow2(sr as nat) * pow2(k as nat) == pow2(128), pow2(k as nat) >= 1;
    lemma_shl_mul(x, k as nat);
    assert(n << k == ((n - ((n >> sr) << sr)) as u128) << k) by(bit_vector) requires k == (128 - sr) as u32, 2 <= sr <= 127;
    assert(q as nat == xn * pow2(k as nat));
    assert(0nat * (d as nat) == 0) by(nonlinear_arith);
    assert(0nat / 2 == 0);
}
'''

SLOW = r'''
fn div128::slow_u128_divrem
  sub /\(d\.leading_zeros\(\)\)/ => /(u64_leading_zeros(d))/
  sub /\(n >> (\d+)\) as u64/ => /#[verifier::truncate] ((n >> \1) as u64)/
  sub /let low = n as u64;/ => /let low = #[verifier::truncate] (n as u64);/
  sub /let s = (.*?) as i128 >> (\d+);/ => /let x = \1; let s = #[verifier::truncate] (x as i128) >> \2;/
  sub /carry = \((.*?)\) as u64;/ => /carry = #[verifier::truncate] ((\1) as u64);/
  sub /r -= (.*?) & s as u128;/ => /let m = #[verifier::truncate] (s as u128); proof { lemma_smask(d, r, x, s, m, carry); } r -= \1 & m;/
  spec <<<
    requires d >= 2, d_ctlz == u64_leading_zeros(d)
    ensures ret.0 as nat == n as nat / d as nat, ret.1 as nat == n as nat % d as nat
>>>
  before /let low =/ <<<
        assert(n < 0x1_0000_0000_0000_0000u128) by(bit_vector) requires #[verifier::truncate] ((n >> 64) as u64) == 0u64;
>>>
  before /let sr =/ <<<
    proof {
        lemma_lz(d); lemma_lz(high); lemma2_to64();
        if d_ctlz == 63 { assert(pow2(1) == 2); assert(false); }
    }
>>>
  after /let mut carry: u64 = \d+;/ <<<
    let ghost mut qq: nat = 0;
    proof { lemma_sinit(n, d, d_ctlz, high, sr, q, r); }
>>>
  loop 1 <<<
        invariant i <= sr, 2 <= sr <= 127, d >= 2,
            sinv(n as nat, d as nat, (sr - i) as nat, q as nat, r as nat, carry as nat, qq),
        decreases sr - i
>>>
  before /r = \(r [^;]*;/ <<<
        let ghost top = q >> 127;
        proof {
            lemma2_to64(); lemma_p127();
            lemma_u128_shr_is_div(q, 127);
            assert((n as nat) < pow2(128)) by { lemma_pow2_adds(64, 64); }
            assert((d as nat) < pow2(64));
            lemma_sstep(n as nat, d as nat, (sr - i + 1) as nat, q as nat, r as nat, carry as nat, qq, top as nat,
                if 2 * r + top >= d { 1nat } else { 0nat });
            assert(((r << 1) | top) == r * 2 + top) by(bit_vector) requires r < 0x1_0000_0000_0000_0000u128, top <= 1u128;
            assert(((q << 1) | (carry as u128)) == (q % 0x8000_0000_0000_0000_0000_0000_0000_0000u128) * 2 + (carry as u128)) by(bit_vector) requires carry <= 1u64;
        }
>>>
  after /r -= [^;]* & m;/ <<<
        proof { qq = 2 * qq + carry as nat; }
>>>
  before /\([^;{}]*, r as u64\)\s*\}\s*$/ <<<
    proof {
        lemma2_to64(); lemma_p127();
        assert(pow2(0) == 1);
        assert(n as nat / 1 == n as nat);
        lemma_fundamental_div_mod_converse(n as int, d as int, qq as int, r as int);
        lemma_fundamental_div_mod(qq as int, 2);
        assert((n as nat) % pow2(0) == 0);
        assert(0 * pow2(128) == 0) by(nonlinear_arith);
        assert(q as nat == qq / 2);
        assert(qq == 2 * (q as nat) + carry as nat);
        assert(((q << 1) | (carry as u128)) == q * 2 + (carry as u128)) by(bit_vector) requires q < 0x8000_0000_0000_0000_0000_0000_0000_0000u128, carry <= 1u64;
    }
>>>
end
'''

