//! C09: the documented buffer bound (`Options::buffer_size_const`, `FORMATTED_SIZE*`) is sufficient:
//! writing any finite value into a buffer of exactly that many bytes does not panic and stays inside it.
//! (Kani reports every reachable panic - slice index, assert!, arithmetic overflow - as a failed obligation.)
use crate::vk::{any, assume, cover};
use crate::vcheck;
use core::num::{NonZeroI32, NonZeroUsize};
use lexical_write_float::{Options, ToLexicalWithOptions};

pub const CAP: usize = 192;

pub fn opts_for(min_digits: usize, max_digits: usize, neg_break: i32, pos_break: i32, trim: bool) -> Option<Options> {
    let b = Options::builder()
        .min_significant_digits(NonZeroUsize::new(min_digits))
        .max_significant_digits(NonZeroUsize::new(max_digits))
        .negative_exponent_break(NonZeroI32::new(neg_break))
        .positive_exponent_break(NonZeroI32::new(pos_break))
        .trim_floats(trim);
    if !b.is_valid() { return None; }
    Some(b.build_unchecked())
}

/// C14 (notation choice): decimal output uses exponent notation exactly when its scientific exponent lies outside
/// [neg_break, pos_break]; judged on the written digits (no digit rounding in these harnesses).
pub fn notation_consistent(out: &[u8], nb: i32, pb: i32) -> Result<(), &'static str> {
    let mut i = 0;
    if i < out.len() && out[i] == b'-' { i += 1; }
    let start = i;
    let mut epos = out.len();
    let mut k = i;
    while k < out.len() { if out[k] == b'e' { epos = k; } k += 1; }
    if epos < out.len() {
        let mut j = epos + 1;
        let neg = j < out.len() && out[j] == b'-';
        if neg { j += 1; }
        let mut e: i32 = 0;
        while j < out.len() { if out[j] < b'0' || out[j] > b'9' { return Err("exponent digits are decimal digits"); } e = e * 10 + (out[j] - b'0') as i32; j += 1; }
        if neg { e = -e; }
        if !(e < nb || e > pb) { return Err("exponent notation is used only when the scientific exponent is outside the break points"); }
        if epos < start + 1 || (epos > start + 1 && out[start + 1] != b'.') { return Err("scientific notation has exactly one integer digit"); }
        return Ok(());
    }
    let mut dot = out.len();
    let mut k = start;
    while k < out.len() { if out[k] == b'.' && dot == out.len() { dot = k; } k += 1; }
    let nint = dot - start;
    let sci: i32 = if !(nint == 1 && out[start] == b'0') { nint as i32 - 1 } else {
        let mut z = 0; let mut k = dot + 1;
        while k < out.len() && out[k] == b'0' { z += 1; k += 1; }
        if k >= out.len() { 0 } else { -(z as i32 + 1) }
    };
    if sci < nb || sci > pb { return Err("positional notation is used only when the scientific exponent is inside the break points"); }
    Ok(())
}

/// write `v` into a buffer of exactly the documented size; Err = contract clause broken (a panic inside the writer is
/// reported by the caller: Kani as a failed check, natively via catch_unwind).
pub fn write_in_bound_f64<const F: u128>(v: f64, o: &Options, breaks: Option<(i32, i32)>) -> Result<usize, &'static str> {
    let bound = o.buffer_size_const::<f64, F>();
    if bound > CAP { return Err("bound fits the harness buffer (harness limit)"); }
    let mut buf = [0xAAu8; CAP + 8];
    let n = v.to_lexical_with_options::<F>(&mut buf[..bound], o).len();
    if n > bound { return Err("written length <= documented bound"); }
    if buf[bound] != 0xAA || buf[CAP + 7] != 0xAA { return Err("frame: no byte beyond the caller's slice is written"); }
    if let Some((nb, pb)) = breaks { if v.is_finite() { notation_consistent(&buf[..n], nb, pb)?; } }
    Ok(n)
}
pub fn write_in_bound_f32<const F: u128>(v: f32, o: &Options, breaks: Option<(i32, i32)>) -> Result<usize, &'static str> {
    let bound = o.buffer_size_const::<f32, F>();
    if bound > CAP { return Err("bound fits the harness buffer (harness limit)"); }
    let mut buf = [0xAAu8; CAP + 8];
    let n = v.to_lexical_with_options::<F>(&mut buf[..bound], o).len();
    if n > bound { return Err("written length <= documented bound"); }
    if buf[bound] != 0xAA || buf[CAP + 7] != 0xAA { return Err("frame: no byte beyond the caller's slice is written"); }
    if let Some((nb, pb)) = breaks { if v.is_finite() { notation_consistent(&buf[..n], nb, pb)?; } }
    Ok(n)
}

/// Emit-level contract (skips Dragonbox `to_decimal`): decimal digits `mant` with scientific exponent `sci` are laid out
/// by the real emit function selected by the documented dispatch rule into a buffer of exactly
/// `buffer_size_const - 1` bytes (one byte is taken by the sign of a negative float).
#[cfg(not(feature = "compact"))]
pub fn emit_in_bound(mant: u64, sci: i32, o: &Options, nb: i32, pb: i32) -> Result<usize, &'static str> {
    use lexical_util::extended_float::ExtendedFloat;
    use lexical_write_float::algorithm::{write_float_negative_exponent, write_float_positive_exponent, write_float_scientific};
    const F: u128 = lexical_util::format::STANDARD;
    let bound = o.buffer_size_const::<f64, F>();
    if bound > CAP || bound < 2 { return Err("bound fits the harness buffer (harness limit)"); }
    let mut nd = 1i32; let mut t = mant; while t >= 10 { t /= 10; nd += 1; }
    let fp = ExtendedFloat { mant, exp: sci - (nd - 1) };
    let mut buf = [0xAAu8; CAP + 8];
    let room = bound - 1;
    let n = if sci < nb || sci > pb { write_float_scientific::<f64, F>(&mut buf[..room], fp, sci, o) }
            else if sci < 0 { write_float_negative_exponent::<f64, F>(&mut buf[..room], fp, sci, o) }
            else { write_float_positive_exponent::<f64, F>(&mut buf[..room], fp, sci, o) };
    if n > room { return Err("written length <= documented bound"); }
    if buf[room] != 0xAA || buf[CAP + 7] != 0xAA { return Err("frame: no byte beyond the caller's slice is written"); }
    Ok(n)
}

#[cfg(not(feature = "compact"))]
pub mod emit {
    use super::*;
    crate::harnesses! {
        /// emit functions into a buffer of exactly the documented size: up to 3 decimal digits, every f64 scientific exponent,
        /// min_significant_digits 58, breaks -16..=-1 / 1..=16.
        /// @prop C09 C14
        /// @feat default radix_format
        /// @bound mantissa < 1000; sci_exp in -324..=308; mantissa without trailing zero; min_significant_digits 58; breaks in -16..=-1 / 1..=16
        /// @fn lexical-write-float::options::Options::buffer_size_const
        /// @fn lexical-write-float::algorithm::{write_float_scientific, write_float_positive_exponent, write_float_negative_exponent}
        /// @fn lexical-write-float::shared::write_exponent
        /// @fn lexical-write-integer::jeaiii::{from_u64, from_u32} (fixed-size window at the cursor)
        /// @assume dispatch rule of the write_float! macro restated in the harness (checked end to end by write_f32_exact_documented_buffer, thorough)
        /// @timeout 1800
        #[cfg_attr(kani, kani::unwind(70))]
        fn emit_exact_documented_buffer_small() {
            let mant: u64 = any();
            let sci: i32 = any();
            assume(mant >= 1 && mant < 1000 && mant % 10 != 0);   // to_decimal's postcondition: no trailing zero
            assume(sci >= -324 && sci <= 308);
            let mind: usize = any(); assume(mind == 58);
            let nb: i32 = any(); assume(nb >= -16 && nb <= -1);
            let pb: i32 = any(); assume(pb >= 1 && pb <= 16);
            let o = opts_for(mind, 0, nb, pb, false);
            vcheck!(o.is_some(), "these options are valid");
            if let Some(o) = o {
                let r = emit_in_bound(mant, sci, &o, nb, pb);
                vcheck!(r.is_ok(), "a buffer of buffer_size_const bytes suffices for the emit functions");
                cover(r.is_ok());
            }
        }

        /// emit functions into a buffer of exactly the documented size: up to 17 decimal digits, every f64 scientific exponent,
        /// min_significant_digits 58..=59, breaks -16..=-1 / 1..=16.
        /// @prop C09 C14
        /// @tier thorough
        /// @feat default radix_format
        /// @bound mantissa < 10^17; sci_exp in -324..=308; mantissa without trailing zero; min_significant_digits in 58..=59; breaks in -16..=-1 / 1..=16
        /// @fn lexical-write-float::options::Options::buffer_size_const
        /// @fn lexical-write-float::algorithm::{write_float_scientific, write_float_positive_exponent, write_float_negative_exponent}
        /// @fn lexical-write-float::shared::write_exponent
        /// @fn lexical-write-integer::jeaiii::{from_u64, from_u32} (fixed-size window at the cursor)
        /// @assume dispatch rule of the write_float! macro restated in the harness (checked end to end by write_f32_exact_documented_buffer, thorough)
        /// @timeout 3600
        #[cfg_attr(kani, kani::unwind(70))]
        fn emit_exact_documented_buffer() {
            let mant: u64 = any();
            let sci: i32 = any();
            assume(mant >= 1 && mant < 100_000_000_000_000_000 && mant % 10 != 0);   // to_decimal's postcondition: no trailing zero
            assume(sci >= -324 && sci <= 308);
            let mind: usize = any(); assume(mind >= 58 && mind <= 59);
            let nb: i32 = any(); assume(nb >= -16 && nb <= -1);
            let pb: i32 = any(); assume(pb >= 1 && pb <= 16);
            let o = opts_for(mind, 0, nb, pb, false);
            vcheck!(o.is_some(), "these options are valid");
            if let Some(o) = o {
                let r = emit_in_bound(mant, sci, &o, nb, pb);
                vcheck!(r.is_ok(), "a buffer of buffer_size_const bytes suffices for the emit functions");
                cover(r.is_ok());
            }
        }
    }
}

crate::harnesses! {
    /// every finite f32, min_significant_digits 58..=60 (the bound is then the computed one, not FORMATTED_SIZE), breaks in -16..=-1 / 1..=9.
    /// @prop C09 C14
    /// @tier thorough
    /// @feat default radix_format
    /// @bound f32 (all finite bit patterns); min_significant_digits in 58..=60; negative break in -16..=-1; positive break in 1..=9; decimal
    /// @fn lexical-write-float::options::Options::buffer_size_const
    /// @fn lexical-write-float::write::WriteFloat::write_float (check_buffer)
    /// @fn lexical-write-float::algorithm::{write_float_scientific, write_float_positive_exponent, write_float_negative_exponent}
    /// @fn lexical-write-float::shared::write_exponent
    /// @timeout 7200
    #[cfg_attr(kani, kani::unwind(70))]
    fn write_f32_exact_documented_buffer() {
        const F: u128 = lexical_util::format::STANDARD;
        let bits: u32 = any();
        let v = f32::from_bits(bits);
        assume(v.is_finite());
        let mind: usize = any(); assume(mind >= 58 && mind <= 60);
        let nb: i32 = any(); assume(nb >= -16 && nb <= -1);
        let pb: i32 = any(); assume(pb >= 1 && pb <= 9);
        let o = opts_for(mind, 0, nb, pb, false);
        vcheck!(o.is_some(), "these options are valid");
        if let Some(o) = o {
            let r = write_in_bound_f32::<F>(v, &o, Some((nb, pb)));
            vcheck!(r.is_ok(), "a buffer of buffer_size_const bytes suffices, nothing outside it is written, notation follows the break points");
            cover(r.is_ok());
        }
    }
}
