//! PF6 / C19: Bellerophon moderate path (feature `compact` for decimal; `radix` for non-power-of-two radices).
//! Function-level relational contract between lossy and non-lossy calls, plus representation validity.
#![cfg(any(feature = "compact", feature = "radix"))]
use crate::vk::{any, assume, cover};
use crate::vcheck;
use lexical_parse_float::bellerophon::bellerophon;
use lexical_parse_float::float::ExtendedFloat80;
use lexical_parse_float::number::Number;

/// Contract stand-in for `bellerophon::mul` (Kani stubbing): the exponent is computed as in the real function, the
/// mantissa is an arbitrary value >= 2^62 (the high word of a product of two normalised operands), and the k-th call
/// returns the same mantissa in the lossy and in the non-lossy run. 64x64-bit symbolic multiplication is out of reach of
/// the SAT back end; the lossy/non-lossy relation does not depend on the product bits.
#[cfg(kani)]
pub mod stubs {
    use lexical_parse_float::float::ExtendedFloat80;
    pub static mut ORACLE: [u64; 2] = [0; 2];
    pub static mut CALLS: usize = 0;
    pub fn mul_contract(x: &ExtendedFloat80, y: &ExtendedFloat80) -> ExtendedFloat80 {
        assert!(x.mant >> 32 != 0, "precondition of mul: first operand decently normalised");
        assert!(y.mant >> 32 != 0, "precondition of mul: second operand decently normalised");
        let m = unsafe { let m = ORACLE[CALLS & 1]; CALLS += 1; m };
        ExtendedFloat80 { mant: m, exp: x.exp + y.exp + 64 }
    }
}

fn valid_biased(fp: &ExtendedFloat80, ms: i32, inf: i32) -> bool {
    fp.exp >= 0 && fp.exp <= inf && (fp.mant < (1u64 << ms) || (fp.mant == (1u64 << ms) && fp.exp == 1)) && (fp.exp != inf || fp.mant == 0)
}

pub fn cmp_bell<T: lexical_parse_float::float::RawFloat, const F: u128>(mantissa: u64, exponent: i64, many_digits: bool, ms: i32, inf: i32) -> Result<bool, &'static str> {
    let digits = [b'1'];
    let num = Number { exponent, mantissa, is_negative: false, many_digits, integer: &digits, fraction: None };
    #[cfg(kani)]
    unsafe { stubs::CALLS = 0; }
    let exact = bellerophon::<T, F>(&num, false);
    #[cfg(kani)]
    unsafe { stubs::CALLS = 0; }
    let lossy = bellerophon::<T, F>(&num, true);
    if !valid_biased(&lossy, ms, inf) { return Err("lossy result is always a valid biased float (never an error marker)"); }
    if !(exact.exp < 0 || valid_biased(&exact, ms, inf)) { return Err("non-lossy result is a valid biased float or error-marked"); }
    if exact.exp >= 0 && !(lossy.mant == exact.mant && lossy.exp == exact.exp) {
        return Err("lossy == non-lossy wherever the non-lossy result is conclusive (zero, infinity and every accurate estimate unchanged)");
    }
    Ok(exact.exp < 0)
}

macro_rules! bell_body {
    ($t:ty, $F:expr, $ms:expr, $inf:expr) => {{
        const F: u128 = $F;
        let mantissa: u64 = any();
        let exponent: i64 = any();
        let many_digits: bool = any();
        assume(exponent >= -0x1100 && exponent <= 0x1100);
        #[cfg(kani)]
        unsafe {
            let (a, b): (u64, u64) = (any(), any());
            assume(a >> 62 != 0 && b >> 62 != 0);
            stubs::ORACLE = [a, b];
        }
        let r = cmp_bell::<$t, F>(mantissa, exponent, many_digits, $ms, $inf);
        vcheck!(r.is_ok(), "bellerophon: lossy result valid and equal to the non-lossy one wherever that is conclusive");
        cover(matches!(r, Ok(true)));
        cover(matches!(r, Ok(false)));
    }};
}

#[cfg(feature = "compact")]
pub mod dec {
    use super::*;
    crate::harnesses! {
    /// bellerophon::<f64> decimal (compact build): every (mantissa, exponent in +-0x1100, many_digits).
    /// @prop C19 C01 C10
    /// @feat compact
    /// @fn lexical-parse-float::bellerophon::bellerophon[f64, decimal]
    /// @fn lexical-parse-float::bellerophon::{error_is_accurate, normalize, mul}
    /// @fn lexical-parse-float::shared::round
    /// @stub lexical-parse-float::bellerophon::mul: exp = x.exp + y.exp + 64, mant >= 2^62 for normalised operands, same result for the same call index
    /// @timeout 2400
    #[cfg_attr(kani, kani::stub(lexical_parse_float::bellerophon::mul, crate::h_bellerophon::stubs::mul_contract))]
    fn bellerophon_lossy_vs_exact_f64() { bell_body!(f64, lexical_util::format::STANDARD, 52, 0x7ff) }

    /// bellerophon::<f32> decimal (compact build).
    /// @prop C19 C01 C10
    /// @feat compact
    /// @fn lexical-parse-float::bellerophon::bellerophon[f32, decimal]
    /// @stub lexical-parse-float::bellerophon::mul: exp = x.exp + y.exp + 64, mant >= 2^62 for normalised operands, same result for the same call index
    /// @timeout 2400
    #[cfg_attr(kani, kani::stub(lexical_parse_float::bellerophon::mul, crate::h_bellerophon::stubs::mul_contract))]
    fn bellerophon_lossy_vs_exact_f32() { bell_body!(f32, lexical_util::format::STANDARD, 23, 0xff) }
    }
}

#[cfg(feature = "radix")]
pub mod radix {
    use super::*;
    crate::harnesses! {
        /// bellerophon::<f64> radix 3.
        /// @prop C19 C05 C10
        /// @tier thorough
        /// @feat radix
        /// @fn lexical-parse-float::bellerophon::bellerophon[f64, radix 3]
        /// @stub lexical-parse-float::bellerophon::mul: exp = x.exp + y.exp + 64, mant >= 2^62 for normalised operands, same result for the same call index
        /// @timeout 3600
        #[cfg_attr(kani, kani::stub(lexical_parse_float::bellerophon::mul, crate::h_bellerophon::stubs::mul_contract))]
        fn bellerophon_lossy_vs_exact_f64_r3() { bell_body!(f64, crate::radix_format(3), 52, 0x7ff) }

        /// bellerophon::<f64> radix 36.
        /// @prop C19 C05 C10
        /// @tier thorough
        /// @feat radix
        /// @fn lexical-parse-float::bellerophon::bellerophon[f64, radix 36]
        /// @stub lexical-parse-float::bellerophon::mul: exp = x.exp + y.exp + 64, mant >= 2^62 for normalised operands, same result for the same call index
        /// @timeout 3600
        #[cfg_attr(kani, kani::stub(lexical_parse_float::bellerophon::mul, crate::h_bellerophon::stubs::mul_contract))]
        fn bellerophon_lossy_vs_exact_f64_r36() { bell_body!(f64, crate::radix_format(36), 52, 0x7ff) }
    }
}
