//! C13: digit separators never change a value (relational contracts between a separator format F and its
//! separator-free counterpart F0).
#![cfg(feature = "format")]
use crate::vk::{any, assume, cover};
use crate::vcheck;
use lexical_parse_float::parse::{parse_complete_number, parse_partial_number};
use lexical_parse_float::Options;
use lexical_util::format::NumberFormatBuilder as B;
use lexical_util::iterator::AsBytes;
use core::num::NonZeroU8;

pub const SEP: u8 = b'_';
const fn sep() -> Option<NonZeroU8> { NonZeroU8::new(SEP) }

pub const F0: u128 = B::new().build_strict();
pub const F_I: u128 = B::new().digit_separator(sep()).internal_digit_separator(true).build_strict();
pub const F_IC: u128 = B::new().digit_separator(sep()).internal_digit_separator(true).consecutive_digit_separator(true).build_strict();
pub const F_L: u128 = B::new().digit_separator(sep()).leading_digit_separator(true).build_strict();
pub const F_T: u128 = B::new().digit_separator(sep()).trailing_digit_separator(true).build_strict();
pub const F_ILT: u128 = B::new().digit_separator(sep()).internal_digit_separator(true).leading_digit_separator(true).trailing_digit_separator(true).build_strict();
pub const F_ALL: u128 = B::new().digit_separator(sep()).digit_separator_flags(true).build_strict();
pub const F_INT_I: u128 = B::new().digit_separator(sep()).integer_internal_digit_separator(true).build_strict();
pub const F_FRAC_I: u128 = B::new().digit_separator(sep()).fraction_internal_digit_separator(true).build_strict();
pub const F_EXP_I: u128 = B::new().digit_separator(sep()).exponent_internal_digit_separator(true).build_strict();
pub const F_INT_ILTC: u128 = B::new().digit_separator(sep()).integer_digit_separator_flags(true).build_strict();

/// R2 only, partial tokenizer only (cheap enough for long digit templates)
pub fn cmp_sep_r2<const F: u128>(s: &[u8]) -> Result<(), &'static str> {
    let opts = Options::new();
    let rp = parse_partial_number::<F>(s.bytes::<F>(), false, &opts);
    let r0 = parse_partial_number::<F0>(s.bytes::<F0>(), false, &opts);
    match (&rp, &r0) {
        (Ok((a, na)), Ok((b, nb))) => {
            if na != nb { return Err("R2: consumed count differs from the separator-free format"); }
            if a.mantissa != b.mantissa || (a.mantissa != 0 && a.exponent != b.exponent) || a.many_digits != b.many_digits { return Err("R2: value differs from the separator-free format"); }
            Ok(())
        },
        (Err(_), Err(_)) => Ok(()),
        _ => Err("R2: accept/reject differs from the separator-free format"),
    }
}

pub fn strip(s: &[u8], out: &mut [u8; 32]) -> usize {
    let mut n = 0;
    let mut i = 0;
    while i < s.len() { if s[i] != SEP { out[n] = s[i]; n += 1; } i += 1; }
    n
}

/// R1: accepted under F => the separator-free text is accepted under F0 with the same value.
/// R2: no separator byte in the input => F and F0 agree exactly (accept/reject, count, value).
pub fn cmp_sep<const F: u128>(s: &[u8]) -> Result<(), &'static str> {
    if s.is_empty() { return Ok(()); }
    let opts = Options::new();
    let rp = parse_partial_number::<F>(s.bytes::<F>(), false, &opts);
    let mut has_sep = false;
    let mut i = 0;
    while i < s.len() { if s[i] == SEP { has_sep = true; } i += 1; }
    if !has_sep {
        let r0 = parse_partial_number::<F0>(s.bytes::<F0>(), false, &opts);
        match (&rp, &r0) {
            (Ok((a, na)), Ok((b, nb))) => {
                if na != nb { return Err("R2: no separator in the input, but consumed count differs from the separator-free format"); }
                if a.mantissa != b.mantissa || (a.mantissa != 0 && a.exponent != b.exponent) || a.many_digits != b.many_digits { return Err("R2: no separator in the input, but the value differs from the separator-free format"); }
            },
            (Err(_), Err(_)) => {},
            _ => return Err("R2: no separator in the input, but accept/reject differs from the separator-free format"),
        }
        let c = parse_complete_number::<F>(s.bytes::<F>(), false, &opts);
        let c0 = parse_complete_number::<F0>(s.bytes::<F0>(), false, &opts);
        if c.is_ok() != c0.is_ok() { return Err("R2 (complete): accept/reject differs from the separator-free format"); }
    }
    if let Ok((num, cnt)) = rp {
        if cnt > s.len() { return Err("count <= len"); }
        let mut buf = [0u8; 32];
        let n = strip(&s[..cnt], &mut buf);
        if n == 0 { return Ok(()); }
        match parse_complete_number::<F0>(buf[..n].bytes::<F0>(), false, &opts) {
            Ok(num0) => {
                if num.mantissa != num0.mantissa || (num.mantissa != 0 && num.exponent != num0.exponent) { return Err("R1: value changes when the separators are deleted"); }
            },
            Err(_) => return Err("R1: accepted with separators but rejected once they are deleted"),
        }
    }
    Ok(())
}

macro_rules! sep_body {
    ($F:expr, $L:expr) => {{
        const F: u128 = $F;
        let bytes: [u8; $L] = any();
        let len: usize = any();
        assume(len <= $L);
        let mut i = 0;
        while i < $L {
            let c = bytes[i];
            assume(c == b'0' || c == b'1' || c == b'9' || c == b'_' || c == b'.' || c == b'e' || c == b'+' || c == b'-' || c == b'a');
            i += 1;
        }
        let r = cmp_sep::<F>(&bytes[..len]);
        vcheck!(r.is_ok(), "separators never change the value; separator-free inputs behave as in the separator-free format");
        cover(len == $L);
    }};
}

crate::harnesses! {
    /// internal separators in all components: strings len <= 6 over {0 1 9 _ . e + - a}.
    /// @prop C13 C10
    /// @feat format radix_format
    /// @bound format F_I (internal, all components); input length <= 6 over {0 1 9 _ . e + - a}
    /// @fn lexical-util::skip::{peek, next, increment_count}[internal] via lexical-parse-float::parse::parse_number
    /// @timeout 3000
    #[cfg_attr(kani, kani::unwind(9))]
    fn sep_internal_len6() { sep_body!(F_I, 6) }

    /// all separator flags (i/l/t/c, all components): strings len <= 6.
    /// @prop C13 C10
    /// @feat format radix_format
    /// @bound format F_ALL; input length <= 6 over {0 1 9 _ . e + - a}
    /// @fn lexical-util::skip (iltc) via parse_number
    /// @timeout 3000
    #[cfg_attr(kani, kani::unwind(9))]
    fn sep_all_len6() { sep_body!(F_ALL, 6) }

    /// @tier thorough
    /// separators enabled for the integer component only: d.dddddddd (8 symbolic fraction digits, no separator byte) must
    /// be read exactly as in the separator-free format (the 8-digit fast path must keep the digit counts in sync).
    /// @prop C13 C12
    /// @feat format radix_format
    /// @bound format F_INT_I; inputs of the shape [0-9].[0-9]{8}
    /// @fn lexical-parse-integer::algorithm::try_parse_8digits (digit counting)
    /// @fn lexical-util::skip::{step_by_unchecked, increment_count, current_count}
    /// @fn lexical-parse-float::parse::parse_number (n_after_dot)
    /// @timeout 1800
    #[cfg_attr(kani, kani::unwind(12))]
    fn sep_int_only_long_fraction() {
        let ds: [u8; 9] = any();
        let mut buf = [0u8; 10];
        let mut i = 0;
        while i < 9 { assume(ds[i] >= b'0' && ds[i] <= b'9'); i += 1; }
        buf[0] = ds[0]; buf[1] = b'.';
        let mut j = 1;
        while j < 9 { buf[j + 1] = ds[j]; j += 1; }
        let r = cmp_sep_r2::<F_INT_I>(&buf);
        vcheck!(r.is_ok(), "no separator byte in the input: same result as in the separator-free format");
    }

    /// @tier thorough
    /// separators enabled for the exponent only: 8 symbolic integer digits + '.' + digit.
    /// @prop C13 C12
    /// @feat format radix_format
    /// @bound format F_EXP_I; inputs of the shape [0-9]{8}.[0-9]
    /// @fn lexical-parse-integer::algorithm::try_parse_8digits (digit counting)
    /// @timeout 1800
    #[cfg_attr(kani, kani::unwind(12))]
    fn sep_exp_only_long_integer() {
        let ds: [u8; 9] = any();
        let mut buf = [0u8; 10];
        let mut i = 0;
        while i < 9 { assume(ds[i] >= b'0' && ds[i] <= b'9'); i += 1; }
        let mut j = 0;
        while j < 8 { buf[j] = ds[j]; j += 1; }
        buf[8] = b'.'; buf[9] = ds[8];
        let r = cmp_sep_r2::<F_EXP_I>(&buf);
        vcheck!(r.is_ok(), "no separator byte in the input: same result as in the separator-free format");
    }

    /// contract of the multi-digit step on a contiguous component of a separator format: when 8 (4) digits are consumed at
    /// once, the cursor AND the digit count advance by 8 (4) (Iter::step_by_unchecked contract: the caller counts the digits).
    /// @prop C13 C12 C10
    /// @feat format radix_format
    /// @fn lexical-parse-integer::algorithm::try_parse_8digits
    /// @fn lexical-parse-integer::algorithm::try_parse_4digits
    /// @fn lexical-util::skip::{step_by_unchecked, increment_count, current_count}
    fn sep_multidigit_step_counts() {
        use lexical_parse_integer::algorithm::{try_parse_4digits, try_parse_8digits};
        use lexical_util::iterator::Iter;
        let ds: [u8; 8] = any();
        let mut i = 0;
        while i < 8 { assume(ds[i] >= b'0' && ds[i] <= b'9'); i += 1; }
        // fraction component of F_INT_I has no separator flag => contiguous, but the format as a whole is not
        let mut b = ds.bytes::<F_INT_I>();
        let before = b.current_count();
        let r: Option<u64> = { let mut it = b.fraction_iter(); try_parse_8digits::<u64, _, F_INT_I>(&mut it) };
        vcheck!(r.is_some(), "eight digit bytes are consumed by the 8-digit step");
        vcheck!(b.cursor() == 8, "cursor advanced by 8");
        vcheck!(b.current_count() == before + 8, "digit count advanced by 8 (kept in sync with the cursor)");
        let mut b4 = ds.bytes::<F_INT_I>();
        let before4 = b4.current_count();
        let r4: Option<u32> = { let mut it = b4.fraction_iter(); try_parse_4digits::<u32, _, F_INT_I>(&mut it) };
        vcheck!(r4.is_some() && b4.cursor() == 4 && b4.current_count() == before4 + 4, "4-digit step: cursor and digit count advanced by 4");
    }
}
