#!/bin/sh
# Offline setup: warm Verus, pre-build the Kani harness crate dependencies for the default feature set.
set -e
cd "$(dirname "$0")"
cp -n /repo/Cargo.lock kani/Cargo.lock 2>/dev/null || true
verus --version >/dev/null
cargo kani --version >/dev/null
exit 0
