"""Row / constant obligation generators (closed facts copied from the current source)."""
import os
import re

from core import REPO
import vunit

GENERATORS = {}


def gen(name):
    def deco(f):
        GENERATORS[name] = f
        return f
    return deco


def run(name, wd):
    facts, functions, prelude = GENERATORS[name]()
    return vunit.run_rows_unit(name, wd, facts, prelude=prelude, functions=functions)


def _read(rel):
    with open(os.path.join(REPO, rel)) as f:
        return f.read()


def _strip_comments(s):
    return re.sub(r'//[^\n]*', '', s)


def _array(src, name, allow_static=True):
    """Return (declared_len_text, body_text) of `const|static NAME: [T; N] = [ ... ];` (first cfg variant whose
    element type is u64/u8/(u64, u64)/i32 -- 32-bit-limb variants are skipped)."""
    for m in re.finditer(r'(?:pub\s+)?(?:const|static)\s+%s\s*:\s*\[\s*([^;\]]+?)\s*;\s*([^\]]+?)\s*\]\s*=\s*\[(.*?)\];' % re.escape(name), src, re.S):
        ty = m.group(1).strip()
        if ty == 'u32' and name.startswith('LARGE_POW'):
            continue
        return ty, m.group(2).strip(), m.group(3)
    return None


TBL_PRELUDE = """
pub open spec fn dch(d: nat) -> u8 { if d < 10 { (48 + d) as u8 } else { (55 + d) as u8 } }
pub open spec fn tbl_rng(s: Seq<u8>, r: nat, lo: nat, hi: nat) -> bool decreases hi - lo {
  if lo >= hi { true } else if lo + 1 == hi { s[(2*lo) as int] == dch(lo / r) && s[(2*lo+1) as int] == dch(lo % r) }
  else { let mid = (lo + (hi - lo) / 2) as nat; tbl_rng(s, r, lo, mid) && tbl_rng(s, r, mid, hi) }
}
pub open spec fn seq_pows(s: Seq<u64>, r: nat, lo: nat, hi: nat) -> bool decreases hi - lo {
  if lo >= hi { true } else if lo + 1 == hi { s[lo as int] as nat == pw(r, lo) }
  else { let mid = (lo + (hi - lo) / 2) as nat; seq_pows(s, r, lo, mid) && seq_pows(s, r, mid, hi) }
}
pub open spec fn limbs_val(s: Seq<u64>, i: nat) -> nat decreases s.len() - i {
  if i >= s.len() { 0 } else { s[i as int] as nat + 0x1_0000_0000_0000_0000 * limbs_val(s, i + 1) }
}
"""


@gen("wi-digit-tables")
def wi_digit_tables():
    """DIGIT_TO_BASE{r}_SQUARED[2k], [2k+1] == digit chars of k / r, k % r, for every k < r^2, every radix."""
    facts = []
    for rel in ("lexical-write-integer/src/table_decimal.rs", "lexical-write-integer/src/table_binary.rs",
                "lexical-write-integer/src/table_radix.rs"):
        src = _read(rel)
        for m in re.finditer(r'pub const DIGIT_TO_BASE(\d+)_SQUARED: \[u8; (\d+)\] = \[(.*?)\];', src, re.S):
            r = int(m.group(1))
            body = _strip_comments(m.group(3)).strip()
            facts.append(("DIGIT_TO_BASE%d_SQUARED" % r,
                          "({ let s = seq![%s]; s.len() == %s && s.len() == 2 * %d * %d && tbl_rng(s, %d, 0, %d) })"
                          % (body, m.group(2), r, r, r, r * r),
                          "%s: %s... (%s entries)" % (rel, body[:60].replace("\n", " "), m.group(2))))
    fns = ["lexical-write-integer::table_decimal/table_binary/table_radix::DIGIT_TO_BASE{2..36}_SQUARED"]
    return facts, fns, TBL_PRELUDE


@gen("util-step")
def util_step():
    """min_step_N(bits, signed) = k  ==>  N^k <= 2^(bits - signed)   (all values in [0, N^k) fit);
    and the u128_divrem_N divisor literal equals N^u64_step(N) (digits-per-chunk consistency)."""
    src = _read("lexical-util/src/step.rs")
    div = _read("lexical-util/src/div128.rs")
    facts = []
    k64 = {}
    for m in re.finditer(r'const fn min_step_(\d+)\(bits: usize, is_signed: bool\) -> usize \{\s*match bits \{(.*?)\n    \}', src, re.S):
        r = int(m.group(1))
        for a in re.finditer(r'(\d+) if (!?)is_signed => (\d+),', m.group(2)):
            bits, neg, k = int(a.group(1)), a.group(2), int(a.group(3))
            e = bits if neg == '!' else bits - 1
            if bits == 64 and neg == '!':
                k64[r] = k
                # algorithm_u128 writes at most three chunks of k digits: needs (N^k)^2 >= 2^64 (unit wi_u128 relies on it)
                facts.append(("min_step_%d[64,unsigned] three chunks cover 128 bits" % r,
                              "pw(%d, %d) >= pw(2, 32)" % (r, k), a.group(0).strip()))
            facts.append(("min_step_%d[%d,%s]" % (r, bits, "unsigned" if neg else "signed"),
                          "pw(%d, %d) <= pw(2, %d)" % (r, k, e), a.group(0).strip()))
    for m in re.finditer(r'fn u128_divrem_(\d+)\(n: u128\) -> \(u128, u64\) \{\s*(\w+)\(([^)]*)\)\s*\}', div):
        r = int(m.group(1))
        args = [a.strip() for a in m.group(3).replace("\n", " ").split(",") if a.strip()]
        if r not in k64:
            continue
        if m.group(2) == "pow2_u128_divrem":
            facts.append(("u128_divrem_%d::mask/shr == radix^u64_step" % r,
                          "pw(2, %s) == pw(%d, %d) && %snat == pw(2, %s) - 1" % (args[2], r, k64[r], args[1], args[2]),
                          m.group(0).replace("\n", " ")[:160]))
        else:
            facts.append(("u128_divrem_%d::divisor == radix^u64_step" % r,
                          "%snat == pw(%d, %d)" % (args[1], r, k64[r]), m.group(0).replace("\n", " ")[:160]))
            if m.group(2) == "slow_u128_divrem":
                # d_ctlz literal is the number of leading zeros of d
                facts.append(("u128_divrem_%d::d_ctlz" % r,
                              "pw(2, %d) <= %snat && %snat < pw(2, %d)" % (63 - int(args[2]), args[1], args[1], 64 - int(args[2])),
                              m.group(0).replace("\n", " ")[:160]))
    return facts, ["lexical-util::step::min_step_{2..36}", "lexical-util::step::u64_step",
                   "lexical-util::div128::u128_divrem_{2..36} (constants)"], ""


def _match_arms(src, fname, cfg_radix=True):
    """arms of the `#[cfg(feature = "radix")]` variant of `pub const fn fname(radix: u32)`"""
    ms = list(re.finditer(r'((?:#\[[^\]]*\]\s*)*)pub const fn %s\(radix: u32\) -> [^{]+\{\s*match radix \{(.*?)\n    \}' % fname, src, re.S))
    out = []
    for m in ms:
        attrs = m.group(1)
        if 'feature = "radix"' in attrs and 'not(feature = "radix")' not in attrs:
            variant = "radix"
        elif 'power-of-two' in attrs and 'not(feature = "power-of-two")' not in attrs.replace('all(feature = "power-of-two", not(feature = "radix"))', ''):
            variant = "pow2"
        elif 'all(feature = "power-of-two"' in attrs:
            variant = "pow2"
        else:
            variant = "default"
        arms = re.findall(r'\n\s*(\d+) => ([^,\n]+(?:, -?\d+\))?),', m.group(2))
        out.append((variant, arms))
    return out


def _odd_part(r):
    while r % 2 == 0:
        r //= 2
    return r


def _is_pow2(r):
    return r & (r - 1) == 0


@gen("pf-limits")
def pf_limits():
    """Clinger fast-path limits (safety direction only: what exactness needs, not maximality)."""
    src = _read("lexical-parse-float/src/limits.rs")
    facts = []
    for ty, p, maxe in (("f32", 24, 127), ("f64", 53, 1023)):
        for variant, arms in _match_arms(src, "%s_exponent_limit" % ty):
            for r, val in arms:
                r = int(r)
                m = re.match(r'\((-?\d+), (-?\d+)\)', val.strip())
                lo, hi = int(m.group(1)), int(m.group(2))
                name = "%s_exponent_limit[%s](%d)" % (ty, variant, r)
                if _is_pow2(r):
                    lg = r.bit_length() - 1
                    # r^hi = 2^(lg*hi) must be a finite normal power of two, r^lo a normal one
                    facts.append((name, "%d * %d <= %d && %d <= %d && %d <= 0" % (lg, hi, maxe, -lo, hi, lo),
                                  "%d => %s" % (r, val)))
                else:
                    # odd(r)^hi exactly representable: < 2^p ; symmetric lower bound
                    facts.append((name, "pw(%d, %d) <= pw(2, %d) && %d == -%d" % (_odd_part(r), hi, p, lo, hi) if lo == -hi else "false",
                                  "%d => %s" % (r, val)))
        for variant, arms in _match_arms(src, "%s_mantissa_limit" % ty):
            for r, val in arms:
                r = int(r)
                k = int(val)
                facts.append(("%s_mantissa_limit[%s](%d)" % (ty, variant, r), "pw(%d, %d) <= pw(2, %d)" % (r, k, p),
                              "%d => %s" % (r, val)))
    for bits in (32, 64):
        for variant, arms in _match_arms(src, "u%d_power_limit" % bits):
            for r, val in arms:
                r = int(r)
                k = int(val)
                facts.append(("u%d_power_limit[%s](%d)" % (bits, variant, r), "pw(%d, %d) <= pw(2, %d) - 1" % (r, k, bits),
                              "%d => %s" % (r, val)))
    return facts, ["lexical-parse-float::limits::{f32,f64}_exponent_limit", "lexical-parse-float::limits::{f32,f64}_mantissa_limit",
                   "lexical-parse-float::limits::{u32,u64}_power_limit"], ""


@gen("pf-lemire-table")
def pf_lemire():
    """POWER_OF_FIVE_128[q - SMALLEST] equals the Eisel-Lemire 128-bit truncated power of five (etc/lemire_table.py)."""
    src = _read("lexical-parse-float/src/table_lemire.rs")
    smallest = int(re.search(r'pub const SMALLEST_POWER_OF_FIVE: i32 = (-?\d+);', src).group(1))
    largest = int(re.search(r'pub const LARGEST_POWER_OF_FIVE: i32 = (-?\d+);', src).group(1))
    m = re.search(r'pub static POWER_OF_FIVE_128: \[\(u64, u64\); N_POWERS_OF_FIVE\] = \[(.*?)\n\];', src, re.S)
    rows = re.findall(r'\(\s*(0x[0-9a-fA-F_]+)\s*,\s*(0x[0-9a-fA-F_]+)\s*\)\s*,', _strip_comments(m.group(1)))
    facts = [("POWER_OF_FIVE_128::len", "%d == %d - (%d) + 1 && %d == -342 && %d == 308" % (len(rows), largest, smallest, smallest, largest),
              "SMALLEST=%d LARGEST=%d rows=%d" % (smallest, largest, len(rows)))]
    for i, (hi, lo) in enumerate(rows):
        q = smallest + i
        T = "mk(%s, %s)" % (hi, lo)
        rng = "pw(2, 127) <= %s && %s < pw(2, 128)" % (T, T)
        if q >= 0:
            p5 = 5 ** q
            s = 127 - (p5.bit_length() - 1)
            if s >= 0:
                fact = "%s && %s == pw(5, %d) * pw(2, %d)" % (rng, T, q, s)
            else:
                fact = "%s && %s == pw(5, %d) / pw(2, %d)" % (rng, T, q, -s)
        else:
            n = -q
            p5 = 5 ** n
            z = (p5 - 1).bit_length()  # smallest z with 2^z >= 5^n
            if q >= -27:
                b = z + 127
                fact = "%s && pw(2, %d) >= pw(5, %d) && pw(2, %d) < pw(5, %d) && %s == pw(2, %d) / pw(5, %d) + 1" % (
                    rng, z, n, z - 1, n, T, b, n)
            else:
                b = 2 * z + 128
                c = 2 ** b // p5 + 1
                t = max(0, c.bit_length() - 128)
                fact = "%s && pw(2, %d) >= pw(5, %d) && pw(2, %d) < pw(5, %d) && %s == (pw(2, %d) / pw(5, %d) + 1) / pw(2, %d)" % (
                    rng, z, n, z - 1, n, T, b, n, t)
        facts.append(("POWER_OF_FIVE_128[%d] (5^%d)" % (i, q), fact, "(%s, %s), // 5^%d" % (hi, lo, q)))
    return facts, ["lexical-parse-float::table_lemire::POWER_OF_FIVE_128 (all rows)"], ""


def _int_list(body):
    return [x.strip() for x in _strip_comments(body).replace("\n", " ").split(",") if x.strip()]


@gen("pf-int-powers")
def pf_int_powers():
    """SMALL_INT_POW{r}[i] == r^i for every i; LARGE_POW{r} limbs == r^LARGE_POW{r}_STEP (64-bit limbs)."""
    facts = []
    for rel in ("lexical-parse-float/src/table_decimal.rs", "lexical-parse-float/src/table_binary.rs",
                "lexical-parse-float/src/table_radix.rs"):
        src = _read(rel)
        for m in re.finditer(r'pub const SMALL_INT_POW(\d+): \[u64; (\d+)\] = \[(.*?)\];', src, re.S):
            r = int(m.group(1))
            items = _int_list(m.group(3))
            facts.append(("SMALL_INT_POW%d" % r,
                          "({ let s = seq![%s]; s.len() == %s && seq_pows(s, %d, 0, %d) })" % (
                              ", ".join(i + "u64" for i in items), m.group(2), r, len(items)),
                          "%s: [%s, ...] (%d entries)" % (rel, ", ".join(items[:4]), len(items))))
        for m in re.finditer(r'pub const LARGE_POW(\d+): \[u64; (\d+)\] = \[(.*?)\];', src, re.S):
            r = int(m.group(1))
            items = _int_list(m.group(3))
            st = re.search(r'pub const LARGE_POW%d_STEP: u32 = (\d+);' % r, src)
            facts.append(("LARGE_POW%d" % r,
                          "({ let s = seq![%s]; s.len() == %s && limbs_val(s, 0) == pw(%d, %s) })" % (
                              ", ".join(i + "u64" for i in items), m.group(2), r, st.group(1)),
                          "%s: LARGE_POW%d_STEP = %s, limbs [%s, ...]" % (rel, r, st.group(1), items[0])))
    return facts, ["lexical-parse-float::table_{decimal,binary,radix}::SMALL_INT_POW*", "…::LARGE_POW* / LARGE_POW*_STEP"], TBL_PRELUDE


# ---------------------------------------------------------------------------
# lexical-write-float: Dragonbox cache, log approximations, derived thresholds

def _log_consts(src):
    """(multiplier, subtrahend, shift) of each `q.wrapping_mul(M)[.wrapping_sub(S)] >> K` helper, copied from source."""
    out = {}
    for m in re.finditer(r'pub const fn (floor_log\w+)\(q: i32\) -> i32 \{\s*q\.wrapping_mul\((\d+)\)(?:\.wrapping_sub\((\d+)\))? >> (\d+)\s*\}', src):
        out[m.group(1)] = (int(m.group(2)), int(m.group(3) or 0), int(m.group(4)))
    return out


def _log_prelude(consts):
    lines = []
    for name, (mul, sub, sh) in sorted(consts.items()):
        lines.append("pub open spec fn %s(q: int) -> int { (q * %d - %d) / %d }" % (name, mul, sub, 1 << sh))
    return "\n".join(lines)


def _floor_log_fact(kind, q, expr):
    """closed fact: `expr` (an int expression) is the true floor of the logarithm for argument q."""
    k = "(%s)" % expr
    if kind == "log10_pow2":      # 10^k <= 2^q < 10^(k+1)
        b_in, b_out = 2, 10
    elif kind == "log2_pow10":    # 2^k <= 10^q < 2^(k+1)
        b_in, b_out = 10, 2
    elif kind == "log5_pow2":     # 5^k <= 2^q < 5^(k+1)
        b_in, b_out = 2, 5
    else:
        raise ValueError(kind)
    if q >= 0:
        # k >= 0
        return "%s >= 0 && pw(%d, %s as nat) <= pw(%d, %d) && pw(%d, %d) < pw(%d, (%s + 1) as nat)" % (
            k, b_out, k, b_in, q, b_in, q, b_out, k)
    # q < 0: x = b_in^q = 1 / b_in^|q| ; k < 0 ;  b_out^k <= x  <=>  b_in^|q| <= b_out^|k| ; x < b_out^(k+1) <=> b_out^(|k|-1) < b_in^|q|
    return "%s < 0 && pw(%d, %d) <= pw(%d, (-%s) as nat) && pw(%d, (-%s - 1) as nat) < pw(%d, %d)" % (
        k, b_in, -q, b_out, k, b_out, k, b_in, -q)


@gen("wf-dragonbox-table")
def wf_dragonbox_table():
    """DRAGONBOX{32,64}_POWERS_OF_FIVE[k - SMALLEST] == ceil(5^k * 2^s) normalised to 64 / 128 bits."""
    src = _read("lexical-write-float/src/table_dragonbox.rs")
    facts = []
    for bits, tag in ((64, "32"), (128, "64")):
        smallest = int(re.search(r'pub const SMALLEST_F%s_POW5: i32 = (-?\d+);' % tag, src).group(1))
        largest = int(re.search(r'pub const LARGEST_F%s_POW5: i32 = (-?\d+);' % tag, src).group(1))
        m = re.search(r'pub const DRAGONBOX%s_POWERS_OF_FIVE: \[[^\]]*\] = \[(.*?)\n\];' % tag, src, re.S)
        body = _strip_comments(m.group(1))
        if bits == 64:
            rows = [(x, None) for x in re.findall(r'(0x[0-9a-fA-F_]+)\s*,', body)]
        else:
            rows = re.findall(r'\(\s*(0x[0-9a-fA-F_]+)\s*,\s*(0x[0-9a-fA-F_]+)\s*\)\s*,', body)
        facts.append(("DRAGONBOX%s::len" % tag, "%d == %d - (%d) + 1" % (len(rows), largest, smallest), "rows=%d" % len(rows)))
        for i, row in enumerate(rows):
            k = smallest + i
            T = row[0] + "nat" if bits == 64 else "mk(%s, %s)" % row
            rng = "pw(2, %d) <= %s && %s < pw(2, %d)" % (bits - 1, T, T, bits)
            if k >= 0:
                p5 = 5 ** k
                s = (bits - 1) - (p5.bit_length() - 1)
                if s >= 0:
                    fact = "%s && %s == pw(5, %d) * pw(2, %d)" % (rng, T, k, s)
                else:
                    # T = ceil(5^k / 2^t):  (T - 1) * 2^t < 5^k <= T * 2^t
                    fact = "%s && (%s - 1) * pw(2, %d) < pw(5, %d) && pw(5, %d) <= %s * pw(2, %d)" % (rng, T, -s, k, k, T, -s)
            else:
                n = -k
                p5 = 5 ** n
                # T = ceil(2^s / 5^n) with T in [2^(bits-1), 2^bits): s = bits - 1 + bitlen(5^n) - (1 if 5^n is a power of two else 0)
                s = bits - 1 + p5.bit_length()
                if (2 ** s + p5 - 1) // p5 >= 2 ** bits:
                    s -= 1
                fact = "%s && (%s - 1) * pw(5, %d) < pw(2, %d) && pw(2, %d) <= %s * pw(5, %d)" % (rng, T, n, s, s, T, n)
            facts.append(("DRAGONBOX%s_POWERS_OF_FIVE[%d] (5^%d)" % (tag, i, k), fact, str(row)))
    return facts, ["lexical-write-float::table_dragonbox::DRAGONBOX32_POWERS_OF_FIVE", "…::DRAGONBOX64_POWERS_OF_FIVE"], ""


FLOATS = {
    # name: (mantissa_size, min binary exponent, max binary exponent of finite values, kappa regex tag)
    "f32": dict(p=23, emin=-149, emax=104, tag="32"),
    "f64": dict(p=52, emin=-1074, emax=971, tag="64"),
}


@gen("wf-dragonbox-logs")
def wf_dragonbox_logs():
    """The integer log approximations are exact on every argument Dragonbox can pass, and every derived
    table index / shift stays in range (per binary exponent of f32 and f64)."""
    src = _read("lexical-write-float/src/algorithm.rs")
    tab = _read("lexical-write-float/src/table_dragonbox.rs")
    consts = _log_consts(src)
    need = ["floor_log10_pow2", "floor_log2_pow10", "floor_log5_pow2"]
    facts = []
    for n in need:
        if n not in consts:
            raise RuntimeError("lost anchor: %s not found in algorithm.rs" % n)
    for fname, f in FLOATS.items():
        kappa = int(re.search(r'impl DragonboxFloat for %s \{\s*const KAPPA: u32 = (\d+);' % fname, src).group(1))
        smallest = int(re.search(r'pub const SMALLEST_F%s_POW5: i32 = (-?\d+);' % f["tag"], tab).group(1))
        largest = int(re.search(r'pub const LARGEST_F%s_POW5: i32 = (-?\d+);' % f["tag"], tab).group(1))
        bmax = 32 if f["tag"] == "32" else 64
        for e in range(f["emin"], f["emax"] + 1):
            # normal interval: minus_k = floor_log10_pow2(e) - kappa ; pow5 index -minus_k ; beta = e + floor_log2_pow10(-minus_k)
            mk = "(floor_log10_pow2(%d as int) - %d)" % (e, kappa)
            facts.append(("%s::floor_log10_pow2(%d)" % (fname, e), _floor_log_fact("log10_pow2", e, "floor_log10_pow2(%d as int)" % e),
                          "floor_log10_pow2 = q * %d >> %d" % (consts["floor_log10_pow2"][0], consts["floor_log10_pow2"][2])))
            facts.append(("%s::normal::power-index+beta(%d)" % (fname, e),
                          "%d <= -%s && -%s <= %d && 1 <= %d + floor_log2_pow10(-%s) && %d + floor_log2_pow10(-%s) < %d" % (
                              smallest, mk, mk, largest, e, mk, e, mk, bmax),
                          "dragonbox_power(-minus_k) index in table; 1 <= beta < %d (f32: compute_mul_parity shifts by 32 - beta)" % bmax))
        for q in range(smallest, largest + 1):
            facts.append(("%s::floor_log2_pow10(%d)" % (fname, q), _floor_log_fact("log2_pow10", q, "floor_log2_pow10(%d as int)" % q),
                          "floor_log2_pow10 = q * %d >> %d" % (consts["floor_log2_pow10"][0], consts["floor_log2_pow10"][2])))
    return facts, ["lexical-write-float::algorithm::floor_log10_pow2", "…::floor_log2_pow10",
                   "…::compute_nearest_normal (table index / beta range per exponent)"], _log_prelude(consts)


def _const_expr(src, name):
    m = re.search(r'const %s: i32 =\s*(.*?);' % name, src, re.S)
    if not m:
        raise RuntimeError("lost anchor: const %s" % name)
    return re.sub(r'\s+', ' ', m.group(1))


def _to_spec_expr(expr, kappa, p):
    e = re.sub(r',\s*\)', ')', expr)
    e = e.replace("Self::KAPPA as i32", "%d" % kappa).replace("Self::KAPPA", "%d" % kappa)
    e = e.replace("Self::MANTISSA_SIZE", "%d" % p).replace("F::MANTISSA_SIZE", "%d" % p)
    if re.search(r'[A-Za-z_]+::', e):
        raise RuntimeError("lost anchor: cannot translate const expression `%s`" % expr)
    # integer literals: make every call argument an `int`
    out = []
    i = 0
    while i < len(e):
        m = re.compile(r'floor_log\w+\(').search(e, i)
        if not m:
            out.append(e[i:])
            break
        out.append(e[i:m.end()])
        depth = 1
        j = m.end()
        while depth:
            if e[j] == '(':
                depth += 1
            elif e[j] == ')':
                depth -= 1
            j += 1
        inner = _to_spec_expr(e[m.end():j - 1], kappa, p)
        out.append("(%s) as int)" % inner)
        i = j
    return "".join(out)


@gen("wf-dragonbox-thresholds")
def wf_dragonbox_thresholds():
    """Every exponent threshold that lets the algorithm *skip* an exact test must satisfy the inequality it is
    derived from (Jeon, Dragonbox paper sec. 4/5), checked per binary exponent."""
    src = _read("lexical-write-float/src/algorithm.rs")
    consts = _log_consts(src)
    facts = []
    div5 = _const_expr(src, "DIV_BY_5_THRESHOLD")
    half = _const_expr(src, "FC_PM_HALF_LOWER")
    for fname, f in FLOATS.items():
        kappa = int(re.search(r'impl DragonboxFloat for %s \{\s*const KAPPA: u32 = (\d+);' % fname, src).group(1))
        T = _to_spec_expr(div5, kappa, f["p"])
        L = _to_spec_expr(half, kappa, f["p"])
        for e in range(f["emin"], f["emax"] + 1):
            mk = "(floor_log10_pow2(%d as int) - %d)" % (e, kappa)
            # (1) e > DIV_BY_5_THRESHOLD: the left endpoint x = (2f-1) * 2^(e-1) / 10^minus_k is assumed NOT to be an
            #     integer without looking; sound only if 5^minus_k exceeds every possible 2f-1 < 2^(p+2).
            facts.append(("%s::DIV_BY_5_THRESHOLD skips the integer test at exponent %d" % (fname, e),
                          "%d <= (%s) || (%s > 0 && pw(5, %s as nat) > pw(2, %d))" % (e, T, mk, mk, f["p"] + 2),
                          "const DIV_BY_5_THRESHOLD: i32 = %s;" % div5))
            # (2) e < FC_PM_HALF_LOWER: x cannot be an integer because the power of two in the denominator survives:
            #     e - 1 - minus_k < 0
            facts.append(("%s::FC_PM_HALF_LOWER skips the integer test at exponent %d" % (fname, e),
                          "%d >= (%s) || (%d - 1 - %s < 0)" % (e, L, e, mk),
                          "const FC_PM_HALF_LOWER: i32 = %s;" % half))
    return facts, ["lexical-write-float::algorithm::DragonboxFloat::DIV_BY_5_THRESHOLD", "…::FC_PM_HALF_LOWER",
                   "…::compute_nearest_normal (endpoint integer test)"], _log_prelude(consts)


@gen("pf-lemire-constants")
def pf_lemire_constants():
    """Derived constants of the Eisel-Lemire kernel must satisfy their defining inequalities (Lemire 2021, sec. 5-9)."""
    fl = _read("lexical-parse-float/src/float.rs")
    lm = _read("lexical-parse-float/src/lemire.rs")
    facts = []
    for ty, ms, emin_sub, emax in (("f32", 23, 149, 128), ("f64", 52, 1074, 1024)):
        m = re.search(r'impl LemireFloat for %s \{(.*?)\n\}' % ty, fl, re.S)
        if not m:
            raise RuntimeError("lost anchor: impl LemireFloat for %s" % ty)
        c = dict((k, int(v)) for k, v in re.findall(r'const (\w+): i32 = (-?\d+);', m.group(1)))
        src = " ".join("%s=%d" % kv for kv in sorted(c.items()))
        mx, mn = c["MAX_EXPONENT_ROUND_TO_EVEN"], c["MIN_EXPONENT_ROUND_TO_EVEN"]
        # exact ties w * 10^q (q >= 0) need 5^q to fit next to the (ms+1)-bit significand: q <= max  <=>  5^q <= 2^(ms+2)
        facts.append(("%s::MAX_EXPONENT_ROUND_TO_EVEN" % ty,
                      "%d >= 0 && pw(5, %d) <= pw(2, %d) && pw(2, %d) < pw(5, %d)" % (mx, mx, ms + 2, ms + 2, mx + 1), src))
        # exact ties w / 10^-q need 5^-q | w < 2^64 with a (ms+1)-bit quotient: -q <= -min  <=>  5^-q <= 2^(63-ms)
        facts.append(("%s::MIN_EXPONENT_ROUND_TO_EVEN" % ty,
                      "%d <= 0 && pw(5, %d) <= pw(2, %d) && pw(2, %d) < pw(5, %d)" % (mn, -mn, 63 - ms, 63 - ms, -mn + 1), src))
        s_, l_ = c["SMALLEST_POWER_OF_TEN"], c["LARGEST_POWER_OF_TEN"]
        # q < SMALLEST: (2^64 - 1) * 10^q is below half the least subnormal  => rounds to +0
        facts.append(("%s::SMALLEST_POWER_OF_TEN" % ty,
                      "%d < 0 && (pw(2, 64) - 1) * pw(2, %d) < pw(10, %d)" % (s_, emin_sub + 1, -(s_ - 1)), src))
        # q > LARGEST: 1 * 10^q is beyond the largest finite value => infinity
        facts.append(("%s::LARGEST_POWER_OF_TEN" % ty, "%d > 0 && pw(10, %d) >= pw(2, %d)" % (l_, l_ + 1, emax), src))
        facts.append(("%s::MINIMUM_EXPONENT" % ty, "%d == -(%d)" % (c["MINIMUM_EXPONENT"], (1 << (7 if ty == "f32" else 10)) - 1), src))
        if ty == "f64":
            facts.append(("f64::power-table range", "%d >= -342 && %d <= 308" % (s_, l_), src))
    # power(q) = floor(q * log2(10)) + 63 on the table range
    m = re.search(r'const fn power\(q: i32\) -> i32 \{\s*\(q\.wrapping_mul\(([\d_]+) \+ ([\d_]+)\) >> (\d+)\) \+ (\d+)\s*\}', lm)
    if not m:
        raise RuntimeError("lost anchor: lemire::power")
    mul = int(m.group(1).replace('_', '')) + int(m.group(2).replace('_', ''))
    sh, add = int(m.group(3)), int(m.group(4))
    for q in range(-342, 309):
        k = "((%d * %d) / %d)" % (q, mul, 1 << sh)
        if q >= 0:
            fact = "%d == 63 && %s >= 0 && pw(2, %s as nat) <= pw(10, %d) && pw(10, %d) < pw(2, (%s + 1) as nat)" % (add, k, k, q, q, k)
        else:
            fact = "%d == 63 && %s < 0 && pw(10, %d) <= pw(2, (-%s) as nat) && pw(2, (-%s - 1) as nat) < pw(10, %d)" % (add, k, -q, k, k, -q)
        facts.append(("lemire::power(%d)" % q, fact, m.group(0).replace("\n", " ")))
    # safe window of the truncated 128-bit product
    m = re.search(r'let inside_safe_exponent = \((-?\d+)\.\.=(-?\d+)\)\.contains\(&q\);', lm)
    if not m:
        raise RuntimeError("lost anchor: inside_safe_exponent window")
    lo, hi = int(m.group(1)), int(m.group(2))
    facts.append(("lemire::inside_safe_exponent window", "%d <= 0 && pw(5, %d) < pw(2, 64) && %d >= 0 && pw(5, %d) < pw(2, 128)" % (lo, -lo, hi, hi), m.group(0)))
    return facts, ["lexical-parse-float::float::LemireFloat::{MIN,MAX}_EXPONENT_ROUND_TO_EVEN", "…::SMALLEST/LARGEST_POWER_OF_TEN",
                   "…::MINIMUM_EXPONENT", "lexical-parse-float::lemire::power", "lexical-parse-float::lemire::compute_float (safe window)"], ""
