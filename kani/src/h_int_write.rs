//! W7/W4/W5: integer writers against `numeral`.
use crate::spec;
use crate::vk::{any, assume, cover};
use crate::vcheck;
use lexical_write_integer::ToLexical;

crate::harnesses! {
    /// u8::to_lexical, all 256 values: bytes == canonical decimal numeral, frame.
    /// @prop C03 C09 C16
    /// @feat default compact radix
    /// @fn lexical-write-integer::api::ToLexical::to_lexical[u8] (jeaiii::from_u8 / compact)
    #[cfg_attr(kani, kani::unwind(5))]
    fn write_u8_decimal_all() {
        let v: u8 = any();
        let mut buf = [0xAAu8; 8];
        let n = v.to_lexical(&mut buf).len();
        let mut exp = [0u8; 128];
        let en = spec::numeral(v as u128, 10, &mut exp);
        vcheck!(n == en, "length == ndigits");
        let mut i = 0;
        while i < 3 {
            if i < n { vcheck!(buf[i] == exp[i], "digit == numeral digit"); }
            i += 1;
        }
        vcheck!(buf[3] == 0xAA && buf[7] == 0xAA, "frame: bytes beyond FORMATTED_SIZE untouched");
        cover(v == 255);
    }
}
