#!/bin/sh
# usage: seedtest.sh <seed-id> <prop> [<prop>...]
#   apply /verif/seeded/<id>/patch.diff to /repo, run the checks, undo (git checkout -- .), keep the check output
#   in /verif/seeded/<id>/check_<prop>.log and the replay files in /verif/seeded/<id>/replays/.
id=$1; shift
cd /repo || exit 2
if [ -n "$(git status --porcelain --untracked-files=no)" ]; then echo "/repo is dirty; refusing"; exit 2; fi
git apply /verif/seeded/$id/patch.diff || { echo "patch does not apply"; exit 2; }
trap 'cd /repo && git checkout -- . ' EXIT
for p in "$@"; do
  log=/verif/seeded/$id/check_$p.log
  start=$(date +%s)
  cd /verif && ./check $p ${SEED_ARGS} > $log 2>&1; rc=$?
  end=$(date +%s)
  echo "seed=$id prop=$p rc=$rc wall=$((end-start))s" >> $log
  mkdir -p /verif/seeded/$id/replays
  for r in $(grep -o 'replay=[^ ]*' $log | cut -d= -f2); do cp "$r" /verif/seeded/$id/replays/ 2>/dev/null; done
  echo "seed=$id prop=$p rc=$rc wall=$((end-start))s :: $(grep -cE '^VIOLATION' $log) violation line(s); first: $(grep -E '^VIOLATION' $log | head -1 | cut -c1-220)"
done
