//! PF4/PF5: Eisel-Lemire kernel and the shared rounding step.
#![cfg(not(feature = "compact"))]
use crate::vk::{any, assume, cover};
use crate::vcheck;
use lexical_parse_float::float::{extended_to_float, ExtendedFloat80, RawFloat};
use lexical_parse_float::lemire::{compute_error, compute_error_scaled, compute_float, lemire};
use lexical_parse_float::number::Number;
use lexical_parse_float::shared;

/// Is (mant, exp) a valid biased IEEE encoding for a float with `ms` mantissa bits and infinite power `inf`?
fn valid_biased(fp: &ExtendedFloat80, ms: i32, inf: i32) -> bool {
    // a subnormal that rounds up to the smallest normal is returned as (1 << ms, 1): the hidden bit coincides with the exponent bit
    fp.exp >= 0 && fp.exp <= inf && (fp.mant < (1u64 << ms) || (fp.mant == (1u64 << ms) && fp.exp == 1)) && (fp.exp != inf || fp.mant == 0)
}

/// Error-marked extended float: exponent shifted by INVALID_FP, mantissa normalised (top bit set).
fn error_marked(fp: &ExtendedFloat80) -> bool {
    fp.exp < 0 && (fp.mant >> 63) == 1 && fp.exp - shared::INVALID_FP > -400 && fp.exp - shared::INVALID_FP < 2400
}

/// exact check that biased (mant, exp) [f32: ms=23, bias 127+23] is the round-to-nearest-even of num/den.
/// All quantities are small enough for u128 in the bands used below.
pub fn is_rne_f32(mant: u64, exp: i32, num: u128, den: u128) -> bool {
    // decode: value = m * 2^e2
    let (m, e2): (u128, i32) = if exp == 0 { (mant as u128, -149) } else { ((mant | (1 << 23)) as u128, exp - 150) };
    if exp >= 255 { return false; }
    // neighbours' midpoints: lo = (2m-1) * 2^(e2-1), hi = (2m+1) * 2^(e2-1); for the smallest normal the lower gap halves
    // compare num/den with hi and lo:  num * 2^(1-e2) vs (2m+1) * den   (e2 <= 1 in the bands used)
    // compare num/den with (2m +- 1) * 2^(e2-1):  num * 2^a  vs  (2m +- 1) * den * 2^b
    let (a, b): (u32, u32) = if e2 <= 1 { ((1 - e2) as u32, 0) } else { (0, (e2 - 1) as u32) };
    if a >= 100 || b >= 60 { return false; }
    let lhs = num << a;
    let hi = ((2 * m + 1) * den) << b;
    let lower_gap_half = exp > 1 && mant == 0; // power of two: the float below is half as far
    let lo = if m == 0 { 0 } else if lower_gap_half { ((4 * m - 1) * den) << b } else { ((2 * m - 1) * den) << b };
    let lhs_lo = if lower_gap_half { lhs << 1 } else { lhs };
    let even = m & 1 == 0;
    let below_ok = if m == 0 { true } else if even { lhs_lo >= lo } else { lhs_lo > lo };
    let above_ok = if even { lhs <= hi } else { lhs < hi };
    below_ok && above_ok
}

pub fn pow10(n: u32) -> u128 { let mut p = 1u128; let mut i = 0; while i < n { p *= 10; i += 1; } p }

/// fixed decimal exponent q (the table row and the reference power of ten are constants), every mantissa below 2^16
/// (a product-equivalence problem: larger mantissa ranges are out of reach of the SAT back end, see lemire_band_f32_rne)
macro_rules! lemire_f32_rne_q {
    ($q:expr) => {{
        let w: u64 = any();
        assume(w > 0 && w < (1 << 16));
        let q: i64 = $q;
        let fp = compute_float::<f32>(q, w, false);
        if fp.exp >= 0 {
            let (num, den) = if q >= 0 { (w as u128 * pow10(q as u32), 1u128) } else { (w as u128, pow10((-q) as u32)) };
            vcheck!(is_rne_f32(fp.mant, fp.exp, num, den), "non-error result == round-to-nearest-even(w * 10^q)");
        }
        cover(fp.exp > 0);
    }};
}

crate::harnesses! {
    /// compute_float::<f64>: for every (q, w, lossy) the result is a valid biased (mant, exp) or an error-marked
    /// normalised estimate; never an error marker when lossy; zero/inf outside the decimal range.
    /// @prop C01 C19 C10 C15
    /// @feat default radix_format
    /// @fn lexical-parse-float::lemire::compute_float[f64]
    /// @fn lexical-parse-float::lemire::compute_product_approx
    /// @fn lexical-parse-float::lemire::compute_error_scaled
    /// @fn lexical-parse-float::lemire::power
    /// @timeout 1800
    fn lemire_compute_float_f64_repr() {
        let q: i64 = any();
        let w: u64 = any();
        let lossy: bool = any();
        let fp = compute_float::<f64>(q, w, lossy);
        vcheck!(valid_biased(&fp, 52, 0x7ff) || (!lossy && error_marked(&fp)), "result is a valid biased float or an error-marked estimate");
        if w == 0 || q < -342 { vcheck!(fp.mant == 0 && fp.exp == 0, "zero mantissa / tiny exponent gives +0"); }
        if w != 0 && q > 308 { vcheck!(fp.mant == 0 && fp.exp == 0x7ff, "huge exponent gives infinity"); }
        cover(fp.exp < 0);
        cover(fp.exp > 0 && fp.exp < 0x7ff);
    }

    /// compute_float::<f32>: same representation contract.
    /// @prop C01 C19 C10 C15
    /// @feat default radix_format
    /// @fn lexical-parse-float::lemire::compute_float[f32]
    /// @timeout 1800
    fn lemire_compute_float_f32_repr() {
        let q: i64 = any();
        let w: u64 = any();
        let lossy: bool = any();
        let fp = compute_float::<f32>(q, w, lossy);
        vcheck!(valid_biased(&fp, 23, 0xff) || (!lossy && error_marked(&fp)), "result is a valid biased float or an error-marked estimate");
        if w == 0 || q < -65 { vcheck!(fp.mant == 0 && fp.exp == 0, "zero mantissa / tiny exponent gives +0"); }
        if w != 0 && q > 38 { vcheck!(fp.mant == 0 && fp.exp == 0xff, "huge exponent gives infinity"); }
        cover(fp.exp < 0);
    }

    /// lossy only matters where the exact call gives up: compute_float::<f64>(q, w, true) == compute_float(q, w, false)
    /// whenever the latter is not error-marked (all q, w).
    /// @prop C19 C01
    /// @tier deep
    /// @feat default radix_format
    /// @fn lexical-parse-float::lemire::compute_float[f64]
    /// @timeout 3000
    fn lemire_lossy_only_changes_error_cases_f64() {
        let q: i64 = any();
        let w: u64 = any();
        let a = compute_float::<f64>(q, w, false);
        let b = compute_float::<f64>(q, w, true);
        if a.exp >= 0 { vcheck!(a == b, "f64: lossy result == exact result when the exact path is conclusive"); }
        cover(a.exp < 0);
    }

    /// same for f32.
    /// @prop C19 C01
    /// @tier deep
    /// @feat default radix_format
    /// @fn lexical-parse-float::lemire::compute_float[f32]
    /// @timeout 3000
    fn lemire_lossy_only_changes_error_cases_f32() {
        let q: i64 = any();
        let w: u64 = any();
        let c = compute_float::<f32>(q, w, false);
        let d = compute_float::<f32>(q, w, true);
        if c.exp >= 0 { vcheck!(c == d, "f32: lossy result == exact result when the exact path is conclusive"); }
        cover(c.exp < 0);
    }

    /// compute_float::<f32>(q = -17, w): a non-error result IS the round-to-nearest-even of w * 10^q, every w < 2^16
    /// (q = -17 and 10 are the ends of the round-to-even window of f32, 11 is just outside).
    /// @prop C01 C19
    /// @feat default radix_format
    /// @bound decimal exponent q = -17, mantissa w < 2^16, f32
    /// @fn lexical-parse-float::lemire::compute_float[f32]
    /// @fn lexical-parse-float::lemire::compute_product_approx
    /// @timeout 1200
    #[cfg_attr(kani, kani::unwind(20))]
    fn lemire_f32_rne_q_m17() { lemire_f32_rne_q!(-17) }

    /// compute_float::<f32>(q = -5, w): a non-error result IS the round-to-nearest-even of w * 10^q, every w < 2^16
    /// (q = -17 and 10 are the ends of the round-to-even window of f32, 11 is just outside).
    /// @prop C01 C19
    /// @feat default radix_format
    /// @bound decimal exponent q = -5, mantissa w < 2^16, f32
    /// @fn lexical-parse-float::lemire::compute_float[f32]
    /// @fn lexical-parse-float::lemire::compute_product_approx
    /// @timeout 1200
    #[cfg_attr(kani, kani::unwind(20))]
    fn lemire_f32_rne_q_m5() { lemire_f32_rne_q!(-5) }

    /// compute_float::<f32>(q = 0, w): a non-error result IS the round-to-nearest-even of w * 10^q, every w < 2^16
    /// (q = -17 and 10 are the ends of the round-to-even window of f32, 11 is just outside).
    /// @prop C01 C19
    /// @feat default radix_format
    /// @bound decimal exponent q = 0, mantissa w < 2^16, f32
    /// @fn lexical-parse-float::lemire::compute_float[f32]
    /// @fn lexical-parse-float::lemire::compute_product_approx
    /// @timeout 1200
    #[cfg_attr(kani, kani::unwind(20))]
    fn lemire_f32_rne_q_0() { lemire_f32_rne_q!(0) }

    /// compute_float::<f32>(q = 5, w): a non-error result IS the round-to-nearest-even of w * 10^q, every w < 2^16
    /// (q = -17 and 10 are the ends of the round-to-even window of f32, 11 is just outside).
    /// @prop C01 C19
    /// @feat default radix_format
    /// @bound decimal exponent q = 5, mantissa w < 2^16, f32
    /// @fn lexical-parse-float::lemire::compute_float[f32]
    /// @fn lexical-parse-float::lemire::compute_product_approx
    /// @timeout 1200
    #[cfg_attr(kani, kani::unwind(20))]
    fn lemire_f32_rne_q_5() { lemire_f32_rne_q!(5) }

    /// compute_float::<f32>(q = 10, w): a non-error result IS the round-to-nearest-even of w * 10^q, every w < 2^16
    /// (q = -17 and 10 are the ends of the round-to-even window of f32, 11 is just outside).
    /// @prop C01 C19
    /// @feat default radix_format
    /// @bound decimal exponent q = 10, mantissa w < 2^16, f32
    /// @fn lexical-parse-float::lemire::compute_float[f32]
    /// @fn lexical-parse-float::lemire::compute_product_approx
    /// @timeout 1200
    #[cfg_attr(kani, kani::unwind(20))]
    fn lemire_f32_rne_q_10() { lemire_f32_rne_q!(10) }

    /// compute_float::<f32>(q = 11, w): a non-error result IS the round-to-nearest-even of w * 10^q, every w < 2^16
    /// (q = -17 and 10 are the ends of the round-to-even window of f32, 11 is just outside).
    /// @prop C01 C19
    /// @feat default radix_format
    /// @bound decimal exponent q = 11, mantissa w < 2^16, f32
    /// @fn lexical-parse-float::lemire::compute_float[f32]
    /// @fn lexical-parse-float::lemire::compute_product_approx
    /// @timeout 1200
    #[cfg_attr(kani, kani::unwind(20))]
    fn lemire_f32_rne_q_11() { lemire_f32_rne_q!(11) }

    /// @tier thorough
    /// Band: for w < 2^16 and -10 <= q <= 10 a non-error compute_float::<f32> result IS the round-to-nearest-even of w * 10^q.
    /// @prop C01 C19
    /// @feat default radix_format
    /// @bound mantissa w < 2^16, decimal exponent -10 <= q <= 10, f32 (the code is generic over the float's constants)
    /// @fn lexical-parse-float::lemire::compute_float[f32]
    /// @timeout 2400
    #[cfg_attr(kani, kani::unwind(14))]
    fn lemire_band_f32_rne() {
        let q: i64 = any();
        let w: u64 = any();
        assume(w > 0 && w < (1 << 16) && q >= -10 && q <= 10);
        let fp = compute_float::<f32>(q, w, false);
        if fp.exp >= 0 {
            let (num, den) = if q >= 0 { (w as u128 * pow10(q as u32), 1u128) } else { (w as u128, pow10((-q) as u32)) };
            vcheck!(is_rne_f32(fp.mant, fp.exp, num, den), "non-error result == round-to-nearest-even(w * 10^q)");
        }
        cover(fp.exp > 0);
    }

    /// @tier thorough
    /// lemire(): with a truncated mantissa the result is conclusive only if mantissa and mantissa+1 agree.
    /// @prop C01
    /// @feat default radix_format
    /// @fn lexical-parse-float::lemire::lemire
    /// @timeout 1800
    fn lemire_many_digits_two_pass() {
        let q: i64 = any();
        let w: u64 = any();
        assume(w < u64::MAX);
        let many: bool = any();
        let num = Number { exponent: q, mantissa: w, is_negative: false, many_digits: many, integer: &[], fraction: None };
        let fp = lemire::<f64>(&num, false);
        let a = compute_float::<f64>(q, w, false);
        if !many { vcheck!(fp == a, "without truncation lemire == compute_float"); }
        if many && fp.exp >= 0 {
            let b = compute_float::<f64>(q, w + 1, false);
            vcheck!(a == b && fp == a, "truncated mantissa: conclusive only when both neighbours round alike");
        }
        cover(many && fp.exp < 0);
    }

    /// extended_to_float packs (mant, exp) into the IEEE bit layout, f32 and f64, all valid biased inputs.
    /// @prop C01 C05 C15
    /// @feat default radix_format
    /// @fn lexical-parse-float::float::extended_to_float
    fn extended_to_float_bits() {
        let mant: u64 = any();
        let exp: i32 = any();
        assume(exp >= 0 && exp <= 0x7ff && mant < (1 << 52));
        let f: f64 = extended_to_float::<f64>(ExtendedFloat80 { mant, exp });
        vcheck!(f.to_bits() == (mant | ((exp as u64) << 52)), "f64 bits == mant | exp << 52");
        if exp <= 0xff && mant < (1 << 23) {
            let g: f32 = extended_to_float::<f32>(ExtendedFloat80 { mant, exp });
            vcheck!(g.to_bits() as u64 == (mant | ((exp as u64) << 23)), "f32 bits == mant | exp << 23");
        }
    }
}
