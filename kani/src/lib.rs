//! Contract harnesses over the real rust-lexical crates (path dependencies on /repo).
#![allow(clippy::all, unused)]
pub mod vk;
pub mod spec;
pub mod h_int_write;

pub type Harness = (&'static str, fn());

pub fn all_harnesses() -> Vec<Harness> {
    let mut v: Vec<Harness> = Vec::new();
    v.extend_from_slice(h_int_write::HARNESSES);
    v
}

/// Defines harness functions and a table of them.
#[macro_export]
macro_rules! harnesses {
    ($( $(#[$m:meta])* fn $name:ident() $body:block )*) => {
        $(
            #[cfg_attr(kani, kani::proof)]
            $(#[$m])*
            pub fn $name() $body
        )*
        pub const HARNESSES: &[$crate::Harness] = &[ $( (stringify!($name), $name as fn()) ),* ];
    };
}
