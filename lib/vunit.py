"""Verus units: (a) .vc contract units over extracted real functions,
(b) row/constant units: closed facts generated from the current source text."""
import os
import re
import time

from core import Obl, UnitResult, log
import vx
import verus_run

CONTRACTS = os.path.join(os.path.dirname(os.path.dirname(os.path.abspath(__file__))), "contracts", "verus")

RULES_TEXT = {
    'R1': 'R1 strip doc comments/attributes',
    'R2': 'R2 drop `unsafe` keyword (body verbatim)',
    'R3': 'R3 get_unchecked(_mut) -> checked indexing (adds in-bounds obligation)',
    'R4': 'R4 debug_assert!(C) -> assert(C) (adds obligation)',
    'R5': 'R5 assert!/panic!/unreachable! -> call of diverging external_body vpanic()',
    'R7': 'R7 `(a..=b).contains(&x)` -> `a <= x && x <= b`',
    'R8': 'R8 `_ = e;` -> `let _discard = e;`',
    'R5u': 'R5u unreachable!() -> vunreachable() with `requires false` (adds obligation: unreachable)',
    'R6': 'R6 per-function monomorphisation / syntax substitutions listed in the .vc file',
}


def scan_assumptions(src, unitname):
    found = []
    body = re.sub(r'//[^\n]*', '', src)
    for kw in ('assume(', 'admit(', 'assume_specification', 'external_body', 'external_fn_specification',
               '#[verifier::external]', 'accept_recursive_types', 'exec_allows_no_decreases_clause'):
        n = body.count(kw)
        if n:
            found.append((kw, n))
    return found


def _fail_name(unit, built, d):
    ln = d.get("line") or 0
    fn = None
    if built and 0 < ln <= len(built["linemap"]):
        fn = built["linemap"][ln - 1]
    srcline = ""
    if built and 0 < ln:
        srcline = built["src"].split('\n')[ln - 1].strip()
    return "%s::%s::%s @ `%s`" % (unit, fn or "<prelude>", d["msg"].split(';')[0][:80], srcline[:100])


def run_vc_unit(vc_name, wd, variables=None, label=None, threads=4, rlimit=None, prop_bound=None):
    """Extract + verify one .vc unit. `prop_bound` marks all obligations as bounded (unused for Verus)."""
    label = label or vc_name
    r = UnitResult(label)
    r.backend = "verus 0.2026.09.13 / z3"
    t0 = time.time()
    vc_path = os.path.join(CONTRACTS, vc_name + ".vc")
    if not os.path.exists(vc_path):
        vc_path = os.path.join(CONTRACTS, vc_name + ".vcgen.py")
    sub = wd.sub("vx-" + re.sub(r'[^A-Za-z0-9_.-]+', '_', label))
    try:
        built = vx.build_unit(vc_path, sub, variables)
        vac = vx.build_unit(vc_path, sub, variables, vacuity=True)
    except vx.Lost as e:
        r.error = "lost anchor / extraction failure: %s" % e
        r.wall_s = time.time() - t0
        return r
    u = built["unit"]
    for f in built["fns"]:
        if f["kind"] == "fn" and f.get("assumed"):
            r.assumptions.append("ASSUMED CONTRACT (body not verified): %s::%s [%s]" % (u.crate, f["path"], u.features))
        elif f["kind"] == "fn":
            r.functions.append("%s::%s [%s]" % (u.crate, f["path"], u.features or "no features"))
    r.dropped = ["%s x%d" % (RULES_TEXT.get(k, k), v) for k, v in sorted(built["stats"].items())]
    for m in re.finditer(r'//\s*ASSUME:\s*(.*)', built["src"]):
        r.assumptions.append("ASSUMED CONTRACT in unit %s: %s" % (label, m.group(1).strip()))
    ass = scan_assumptions(built["src"], label)
    for kw, n in ass:
        if kw in ('assume(', 'admit('):
            r.error = "forbidden `%s` in generated file for %s" % (kw, label)
            return r
        r.assumptions.append("verus unit %s: %s x%d (trusted: vpanic diverges; std specs from vstd)" % (label, kw, n))
    res = verus_run.run(built["file"], threads=threads, rlimit=rlimit)
    r.cmds.append("verus <extracted %s.rs> --output-json --time" % u.name)
    r.solver_s += res.get("smt_ms", 0) / 1000.0
    if res["status"] == "tool-error":
        r.error = "verus could not process extracted unit %s (unsupported construct / type error after extraction): %s\n%s" % (
            label, res.get("reason"), res.get("raw", "")[-3000:])
        r.wall_s = time.time() - t0
        return r
    failing_fns = set()
    for d in res["failures"]:
        name = _fail_name(label, built, d)
        ln = d.get("line") or 0
        fn = built["linemap"][ln - 1] if 0 < ln <= len(built["linemap"]) else None
        failing_fns.add(fn)
        r.obls.append(Obl(name, label, "verus-z3", "failed",
                          detail="%s\n%s" % (d["msg"], "\n".join(d["text"][:12]))))
    for d in res.get("undecided", []):
        name = _fail_name(label, built, d)
        r.obls.append(Obl(name, label, "verus-z3", "undecided", detail=d["msg"]))
    nfn = 0
    for f in built["fns"]:
        if f["kind"] != "fn" or f.get("assumed"):
            continue
        if f["path"] in failing_fns or res.get("aborted_early"):
            continue
        nfn += 1
        r.obls.append(Obl("%s::%s::contract" % (label, f["path"]), label, "verus-z3", "discharged"))
    extra = res["verified"] - nfn
    if extra > 0 and res["status"] == "ok":
        r.obls.append(Obl("%s::<lemmas and by(..) side queries>" % label, label, "verus-z3", "discharged", count=extra))
    if res["status"] == "ok" and res["verified"] < u.min_obligations:
        r.error = "vacuity guard: unit %s produced %d obligations, expected >= %d" % (label, res["verified"], u.min_obligations)
    # vacuity: assert(false) at the start of every contracted fn must fail
    if res["status"] == "ok":
        vres = verus_run.run(vac["file"], threads=threads, rlimit=rlimit)
        r.solver_s += vres.get("smt_ms", 0) / 1000.0
        if vres["status"] == "tool-error":
            r.error = "vacuity run failed for %s: %s" % (label, vres.get("reason"))
        else:
            hit = set()
            vlines = vac["src"].split('\n')
            for d in vres["failures"]:
                for ln in ([d.get("line")] + d.get("lines", [])):
                    if ln and 0 < ln <= len(vlines) and '/*VACUITY*/' in vlines[ln - 1]:
                        hit.add(vac["linemap"][ln - 1])
            for f in vac["fns"]:
                if f["kind"] == "fn" and not f["novac"] and f["path"] not in hit:
                    r.error = ("vacuity guard: `assert(false)` under the requires of %s verified "
                               "(contradictory precondition?)" % f["path"])
    r.samples.append("%s: %d functions under contract, verus verified=%d" % (label, nfn, res["verified"]))
    r.wall_s = time.time() - t0
    return r


# --------------------------------------------------------------------------
# row / constant units

ROW_PRELUDE = """#![allow(unused, non_snake_case, non_upper_case_globals, unused_parens)]
use vstd::prelude::*;
verus! {
pub open spec fn pw(b: nat, e: nat) -> nat decreases e {
    if e == 0 { 1 } else if e % 2 == 0 { let h = pw(b, e / 2); h * h } else { b * pw(b, (e - 1) as nat) }
}
pub open spec fn mk(hi: nat, lo: nat) -> nat { hi * 0x1_0000_0000_0000_0000 + lo }
// A refuted closed fact leaves `unk()` for the SMT solver, which fails that one assertion without aborting the run.
pub uninterp spec fn unk() -> bool;
"""


def run_rows_unit(label, wd, facts, prelude="", functions=(), chunk=400, threads=4, engine="verus-compute"):
    """facts: list of (obligation_name, closed_boolean_expr, source_text_sample).

    Each becomes `proof fn oN() { assert(<fact>) by(compute_only); }`.
    A fact that evaluates to false is reported as a failed obligation with its name."""
    r = UnitResult(label)
    r.backend = "verus 0.2026.09.13 / by(compute_only) interpreter"
    r.functions = list(functions)
    t0 = time.time()
    if not facts:
        r.error = "vacuity guard: unit %s generated zero obligations" % label
        return r
    sub = wd.sub("rows-" + re.sub(r'[^A-Za-z0-9_.-]+', '_', label))
    files = []
    for ci in range(0, len(facts), chunk):
        part = facts[ci:ci + chunk]
        lines = [ROW_PRELUDE, prelude]
        index = {}
        for k, (name, expr, sample) in enumerate(part):
            fnname = "o%d" % (ci + k)
            index[fnname] = (name, expr, sample)
            lines.append("proof fn %s() { assert(%s) by(compute_only); } // %s" % (fnname, expr, name))
        lines.append("} fn main() {}")
        fn = os.path.join(sub, "rows%d.rs" % ci)
        with open(fn, "w") as f:
            f.write("\n".join(lines))
        files.append((fn, index, "\n".join(lines)))
    r.cmds.append("verus <generated row obligations %s> --output-json --time" % label)
    # canary: the machinery must flag a false closed fact (guards against a silently vacuous run)
    cfile = os.path.join(sub, "canary.rs")
    with open(cfile, "w") as f:
        f.write(ROW_PRELUDE + prelude + "\nproof fn canary() { assert((pw(2, 10) == 1025) || unk()) by(compute); }\n} fn main() {}")
    cres = verus_run.run(cfile, threads=threads)
    if cres["status"] != "failed":
        r.error = "vacuity guard: canary false fact was not refuted in unit %s (%s)" % (label, cres.get("reason"))
        return r
    for fn, index, src in files:
        remaining = dict(index)
        bad_all = {}
        for attempt in range(12):
            lines = [ROW_PRELUDE, prelude]
            for fnname, (name, expr, sample) in remaining.items():
                lines.append("proof fn %s() { assert((%s) || unk()) by(compute); } // %s" % (fnname, expr, name))
            lines.append("} fn main() {}")
            src = "\n".join(lines)
            with open(fn, "w") as f:
                f.write(src)
            res = verus_run.run(fn, threads=threads)
            r.solver_s += res.get("smt_ms", 0) / 1000.0
            if res["status"] == "tool-error":
                r.error = "verus could not process row unit %s: %s\n%s" % (label, res.get("reason"), res.get("raw", "")[-2000:])
                break
            srclines = src.split('\n')
            bad = {}
            for d in res["failures"] + res.get("undecided", []):
                ln = d.get("line")
                m = re.match(r'proof fn (o\d+)\(', srclines[ln - 1]) if ln and ln <= len(srclines) else None
                if m:
                    bad[m.group(1)] = (d, "undecided" if d in res.get("undecided", []) else "failed")
            if res["status"] in ("failed", "undecided") and not bad:
                r.error = "row unit %s: verus reported failures that could not be mapped to rows:\n%s" % (label, res["raw"][-1500:])
                break
            bad_all.update(bad)
            for k in bad:
                remaining.pop(k, None)
            if not bad or not res.get("aborted_early") or not remaining:
                break
        else:
            r.error = "row unit %s: more than 12 failing rows in one chunk; remaining rows undecided" % label
        if r.error:
            break
        for fnname, (name, expr, sample) in index.items():
            if fnname in bad_all:
                d, st = bad_all[fnname]
                r.obls.append(Obl("%s::%s" % (label, name), label, engine, st,
                                  detail="%s\nfact: %s\nsource: %s" % (d["msg"], expr[:1500], sample)))
            else:
                r.obls.append(Obl("%s::%s" % (label, name), label, engine, "discharged", sample=sample))
    n = len(facts)
    r.samples.append({"unit": label, "obligation": facts[0][0], "fact": facts[0][1][:400], "source_row": facts[0][2]})
    if n > 1:
        r.samples.append({"unit": label, "obligation": facts[-1][0], "fact": facts[-1][1][:400], "source_row": facts[-1][2]})
    r.wall_s = time.time() - t0
    return r
