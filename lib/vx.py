"""vx: mechanical extraction of real functions from /repo into a Verus file.

Source of truth on every run: `cargo +nightly rustc -p <crate> --features <set>
-- -Zunpretty=expanded` on /repo's working tree (macros, cfg and includes are
resolved by rustc itself).  From that text, items named in a `.vc` contract
file are cut out by brace matching and rewritten by a fixed list of textual
rules (R1..R5 below) plus per-function `sub` rules written in the `.vc` file
(R6, monomorphisation).  Every rule application is counted and reported; a rule
or anchor that no longer matches raises Lost (-> exit 2, never an alarm).
"""
import os
import re
import subprocess
import hashlib

REPO = os.environ.get("VERIF_REPO", "/repo")


class Lost(Exception):
    """An anchor / item / rewrite no longer matches the current source."""


# --------------------------------------------------------------------------
# expansion

_expand_cache = {}


def expand(crate, features, workdir):
    """Return the macro-expanded source of `crate` built with `features`."""
    key = (crate, features)
    if key in _expand_cache:
        return _expand_cache[key]
    os.makedirs(workdir, exist_ok=True)
    out = os.path.join(workdir, "expanded-%s-%s.rs" % (crate, features.replace(",", "_") or "none"))
    if not os.path.exists(out):
        env = dict(os.environ)
        env["CARGO_TARGET_DIR"] = os.path.join(workdir, "target-expand")
        env["CARGO_NET_OFFLINE"] = "true"
        cmd = ["cargo", "+nightly", "rustc", "--offline", "-q", "-p", crate,
               "--no-default-features", "--lib"]
        if features:
            cmd += ["--features", features]
        cmd += ["--", "-Zunpretty=expanded", "-Awarnings"]
        p = subprocess.run(cmd, cwd=REPO, env=env, stdout=subprocess.PIPE,
                           stderr=subprocess.PIPE, text=True)
        if p.returncode != 0:
            raise Lost("expansion of %s [%s] failed (the tree does not compile?):\n%s"
                       % (crate, features, p.stderr[-3000:]))
        tmp = out + ".tmp%d" % os.getpid()
        with open(tmp, "w") as f:
            f.write(p.stdout)
        os.replace(tmp, out)
    with open(out) as f:
        text = f.read()
    _expand_cache[key] = text
    return text


# --------------------------------------------------------------------------
# lexical helpers (strings / chars / comments aware)

def _skip_noncode(s, i):
    """If s[i] starts a comment/string/char literal return index after it, else i."""
    n = len(s)
    c = s[i]
    if c == '/' and i + 1 < n:
        if s[i + 1] == '/':
            j = s.find('\n', i)
            return n if j < 0 else j
        if s[i + 1] == '*':
            depth = 1
            j = i + 2
            while j < n and depth:
                if s.startswith('/*', j):
                    depth += 1
                    j += 2
                elif s.startswith('*/', j):
                    depth -= 1
                    j += 2
                else:
                    j += 1
            return j
    if c == '"':
        j = i + 1
        while j < n:
            if s[j] == '\\':
                j += 2
                continue
            if s[j] == '"':
                return j + 1
            j += 1
        return n
    if c == 'r' and i + 1 < n and s[i + 1] in '#"' and (i == 0 or not (s[i - 1].isalnum() or s[i - 1] == '_')):
        m = re.match(r'r(#*)"', s[i:])
        if m:
            close = '"' + m.group(1)
            j = s.find(close, i + len(m.group(0)))
            return n if j < 0 else j + len(close)
    if c == 'b' and i + 1 < n and s[i + 1] == '\'' and (i == 0 or not (s[i - 1].isalnum() or s[i - 1] == '_')):
        return _skip_noncode(s, i + 1)
    if c == '\'':
        # char literal or lifetime
        m = re.match(r"'(\\.[^']*|[^'\\])'", s[i:])
        if m:
            return i + len(m.group(0))
        return i + 1
    return i


def match_close(s, i):
    """s[i] is an opening bracket; return index of its matching close."""
    pairs = {'{': '}', '(': ')', '[': ']'}
    stack = [pairs[s[i]]]
    j = i + 1
    n = len(s)
    while j < n:
        k = _skip_noncode(s, j)
        if k != j:
            j = k
            continue
        c = s[j]
        if c in pairs:
            stack.append(pairs[c])
        elif c in '})]':
            if not stack or stack[-1] != c:
                raise Lost("unbalanced bracket near offset %d" % j)
            stack.pop()
            if not stack:
                return j
        j += 1
    raise Lost("unterminated bracket at offset %d" % i)


def find_code(s, pat, start=0, end=None):
    """Regex search that ignores matches starting inside comments/strings."""
    end = len(s) if end is None else end
    rx = re.compile(pat) if isinstance(pat, str) else pat
    i = start
    # build a list of noncode spans lazily
    pos = start
    while True:
        m = rx.search(s, pos, end)
        if not m:
            return None
        # check whether m.start() is in code: scan from i
        j = i
        ok = True
        while j < m.start():
            k = _skip_noncode(s, j)
            if k != j:
                if k > m.start():
                    ok = False
                    break
                j = k
            else:
                j += 1
        if ok:
            return m
        pos = m.start() + 1
        i = j if j <= pos else i


def find_mod_body(text, modpath):
    """Return (start, end) of the body of nested module path a::b in text."""
    lo, hi = 0, len(text)
    for name in [p for p in modpath.split("::") if p]:
        rx = re.compile(r'(?m)^[ \t]*(?:pub(?:\([a-z ]+\))?\s+)?mod\s+%s\s*\{' % re.escape(name))
        # only top-level within [lo,hi): check brace depth == 0
        pos = lo
        found = None
        while True:
            m = find_code(text, rx, pos, hi)
            if not m:
                break
            if _depth(text, lo, m.start()) == 0:
                found = m
                break
            pos = m.end()
        if not found:
            raise Lost("module %s not found" % modpath)
        o = found.end() - 1
        c = match_close(text, o)
        lo, hi = o + 1, c
    return lo, hi


def _depth(s, lo, pos):
    d = 0
    j = lo
    while j < pos:
        k = _skip_noncode(s, j)
        if k != j:
            j = k
            continue
        if s[j] == '{':
            d += 1
        elif s[j] == '}':
            d -= 1
        j += 1
    return d


def find_item(text, modpath, kind, name, nth=1, within=None):
    """Cut out item `kind name` (kind: fn|const|static) at depth 0 of module.

    `within`: optional regex of an enclosing `impl ... {` header to search in.
    Returns the item text (from the keyword line start to the closing brace/;).
    """
    lo, hi = find_mod_body(text, modpath)
    base_depth = 0
    if within:
        m = find_code(text, re.compile(within), lo, hi)
        if not m:
            raise Lost("impl header /%s/ not found in %s" % (within, modpath))
        o = text.index('{', m.end() - 1) if text[m.end() - 1] != '{' else m.end() - 1
        c = match_close(text, o)
        lo, hi = o + 1, c
    if kind == 'fn':
        rx = re.compile(r'(?m)^[ \t]*((?:pub(?:\([a-z ]+\))?\s+)?(?:const\s+)?(?:unsafe\s+)?fn\s+%s\b)' % re.escape(name))
    else:
        rx = re.compile(r'(?m)^[ \t]*((?:pub(?:\([a-z ]+\))?\s+)?%s\s+%s\b)' % (kind, re.escape(name)))
    pos = lo
    count = 0
    while True:
        m = find_code(text, rx, pos, hi)
        if not m:
            raise Lost("%s %s not found in module %s" % (kind, name, modpath or '<root>'))
        if _depth(text, lo, m.start()) == base_depth:
            count += 1
            if count == nth:
                break
        pos = m.end()
    start = m.start(1)
    # find end: first `{` or `;` at bracket depth 0
    j = m.end()
    n = len(text)
    while j < n:
        k = _skip_noncode(text, j)
        if k != j:
            j = k
            continue
        c = text[j]
        if c in '([':
            j = match_close(text, j) + 1
            continue
        if c == '{':
            if kind == 'fn':
                e = match_close(text, j)
                return text[start:e + 1]
            j = match_close(text, j) + 1
            continue
        if c == ';':
            return text[start:j + 1]
        j += 1
    raise Lost("item %s not terminated" % name)


# --------------------------------------------------------------------------
# rewrites

def strip_attrs_docs(s, stats):
    """R1: remove doc comments, plain comments and #[...] attributes."""
    out = []
    i = 0
    n = len(s)
    while i < n:
        c = s[i]
        if c == '/' and i + 1 < n and s[i + 1] in '/*':
            k = _skip_noncode(s, i)
            stats['R1'] = stats.get('R1', 0) + 1
            i = k
            continue
        if c == '#' and i + 1 < n and (s[i + 1] == '[' or s[i + 1:i + 3] == '!['):
            o = s.index('[', i)
            e = match_close(s, o)
            stats['R1'] = stats.get('R1', 0) + 1
            i = e + 1
            continue
        k = _skip_noncode(s, i)
        if k != i:
            out.append(s[i:k])
            i = k
            continue
        out.append(c)
        i += 1
    return ''.join(out)


def _paren_expr_after(s, i):
    """s[i] == '(' -> (inner, index after ')')"""
    e = match_close(s, i)
    return s[i + 1:e], e + 1


def _split_if_not(inner):
    """inner starts with `if !` -> (cond, body, rest) with cond up to the first `{` at depth 0."""
    mm = re.match(r'if !', inner)
    if not mm:
        return None
    j = mm.end()
    n = len(inner)
    while j < n and inner[j] != '{':
        if inner[j] in '([':
            j = match_close(inner, j) + 1
        else:
            j += 1
    if j >= n:
        return None
    e = match_close(inner, j)
    return inner[mm.end():j].strip(), inner[j + 1:e], inner[e + 1:]


def rw_debug_assert(s, stats):
    """R4: `if true { if !(C) { panic } ; };` -> `assert(C);`
       also the debug_assert_eq!/ne! match-shape."""
    out = []
    i = 0
    rx = re.compile(r'if true \{\s*')
    while True:
        m = rx.search(s, i)
        if not m:
            out.append(s[i:])
            break
        o = s.index('{', m.start())
        e = match_close(s, o)
        inner = s[o + 1:e].strip()
        rep = None
        sp = _split_if_not(inner)
        if sp and 'panicking' in sp[1] and sp[2].strip() in ('', ';'):
            rep = 'assert(%s);' % sp[0]
        else:
            mm = re.match(r'match \(&(.*?), &(.*?)\) \{\s*\(left_val, right_val\) => \{\s*if !\(\*left_val (==|!=) \*right_val\)', inner, re.S)
            if mm and 'assert_failed' in inner:
                op = mm.group(3)
                rep = 'assert((%s) %s (%s));' % (mm.group(1), op, mm.group(2))
        if rep is None:
            out.append(s[i:m.end()])
            i = m.end()
            continue
        out.append(s[i:m.start()])
        out.append(rep)
        stats['R4'] = stats.get('R4', 0) + 1
        j = e + 1
        mm2 = re.match(r'\s*;', s[j:])
        if mm2:
            j += len(mm2.group(0))
        i = j
    return ''.join(out)


def rw_assert(s, stats):
    """R5: `if !(C) { {panic_fmt(..)} };` / `if !C { panic(..) }` -> `if !(C) { vpanic(); }`."""
    out = []
    i = 0
    rx = re.compile(r'if !')
    while True:
        m = rx.search(s, i)
        if not m:
            out.append(s[i:])
            break
        # condition runs to the first '{' at depth 0
        j = m.end()
        n = len(s)
        while j < n and s[j] != '{':
            if s[j] in '([':
                j = match_close(s, j) + 1
            else:
                j += 1
        if j >= n:
            out.append(s[i:])
            break
        cond = s[m.end():j].strip()
        e = match_close(s, j)
        body = s[j + 1:e]
        if re.search(r'::core::panicking::(panic|panic_fmt|panic_explicit|unreachable_display)\(', body) and \
                re.fullmatch(r'[\s{};]*::core::panicking::\w+\((?:.|\n)*\)[\s{};]*', body):
            out.append(s[i:m.start()])
            out.append('if !(%s) { vpanic(); }' % cond)
            stats['R5'] = stats.get('R5', 0) + 1
            i = e + 1
        else:
            out.append(s[i:m.end()])
            i = m.end()
    return ''.join(out)


def rw_panics(s, stats):
    """R5b: remaining bare panic calls (unreachable!(), panic!()) -> vpanic()."""
    rx = re.compile(r'::core::panicking::(?:panic|panic_fmt|unreachable_display|panic_explicit)\(')
    out = []
    i = 0
    while True:
        m = rx.search(s, i)
        if not m:
            out.append(s[i:])
            break
        e = match_close(s, m.end() - 1)
        out.append(s[i:m.start()])
        if 'entered unreachable code' in s[m.end():e]:
            out.append('vunreachable()')
            stats['R5u'] = stats.get('R5u', 0) + 1
        else:
            out.append('vpanic()')
            stats['R5'] = stats.get('R5', 0) + 1
        i = e + 1
    return ''.join(out)


def rw_range_contains(s, stats):
    """R7: `(a..=b).contains(&x)` -> `(a <= x && x <= b)`;  `(a..b).contains(&x)` -> `(a <= x && x < b)`."""
    def f(m):
        stats['R7'] = stats.get('R7', 0) + 1
        return '(%s <= %s && %s <= %s)' % (m.group(1), m.group(3), m.group(3), m.group(2))
    s = re.sub(r'\((\w+)\s*\.\.=\s*(\w+)\)\s*\.contains\(&(\w+)\)', f, s)
    def g(m):
        stats['R7'] = stats.get('R7', 0) + 1
        return '(%s <= %s && %s < %s)' % (m.group(1), m.group(3), m.group(3), m.group(2))
    return re.sub(r'\((\w+)\s*\.\.\s*(\w+)\)\s*\.contains\(&(\w+)\)', g, s)


def rw_unsafe(s, stats):
    """R2: drop `unsafe` keyword of unsafe fn / unsafe blocks."""
    def f(m):
        stats['R2'] = stats.get('R2', 0) + 1
        return m.group(1)
    s = re.sub(r'\bunsafe\s+(fn\b)', f, s)
    s = re.sub(r'\bunsafe\s*(\{)', f, s)
    return s


def rw_unchecked(s, stats):
    """R3: get_unchecked(_mut) -> checked indexing (adds in-bounds obligations)."""
    rx = re.compile(r'\*\s*([A-Za-z_][A-Za-z0-9_]*)\s*\.\s*get_unchecked(_mut)?\(')
    out = []
    i = 0
    while True:
        m = rx.search(s, i)
        if not m:
            out.append(s[i:])
            break
        inner, after = _paren_expr_after(s, m.end() - 1)
        out.append(s[i:m.start()])
        out.append('%s[%s]' % (m.group(1), inner.strip()))
        stats['R3'] = stats.get('R3', 0) + 1
        i = after
    s = ''.join(out)
    # non-deref form: x.get_unchecked(a..b) -> &x[a..b]
    rx = re.compile(r'([A-Za-z_][A-Za-z0-9_]*)\s*\.\s*get_unchecked(_mut)?\(')
    out = []
    i = 0
    while True:
        m = rx.search(s, i)
        if not m:
            out.append(s[i:])
            break
        inner, after = _paren_expr_after(s, m.end() - 1)
        out.append(s[i:m.start()])
        pre = '&mut ' if m.group(2) else '&'
        # `&mut *x.get_unchecked_mut(r)`-like shapes are left to per-fn subs
        out.append('(%s%s[%s])' % (pre, m.group(1), inner.strip()))
        stats['R3'] = stats.get('R3', 0) + 1
        i = after
    return ''.join(out)


def rw_discard(s, stats):
    """R8: `_ = expr;` (discarded value) -> `let _discard = expr;`"""
    def f(m):
        stats['R8'] = stats.get('R8', 0) + 1
        return m.group(1) + 'let _discard ='
    return re.sub(r'(^|[;{}]\s*)_\s*=(?![=>])', f, s)


STD_REWRITES = [rw_discard, strip_attrs_docs, rw_unsafe, rw_range_contains, rw_debug_assert, rw_assert, rw_panics, rw_unchecked]


def standard_rewrites(item, stats):
    for f in STD_REWRITES:
        item = f(item, stats)
    return item


# --------------------------------------------------------------------------
# .vc contract files

class FnSpec:
    def __init__(self):
        self.path = None      # module path :: name
        self.alias = None
        self.kind = 'fn'
        self.within = None
        self.nth = 1
        self.subs = []        # (regex, repl, count_expected or None)
        self.spec = ''        # requires/ensures text
        self.hints = []       # (where, nth, regex, text)
        self.loops = {}       # ordinal -> text
        self.raw = False      # item copied with only R1
        self.ret = 'ret'
        self.novac = False
        self.assumed = False  # contract trusted: body dropped, reported as an assumption
        self.crate = None     # override of the unit's crate (cross-crate callee)
        self.features = None


class Unit:
    def __init__(self):
        self.name = None
        self.crate = None
        self.features = ''
        self.prelude = ''
        self.fns = []
        self.min_obligations = 1
        self.header = ''


def parse_vc(path, variables=None):
    """Parse a .vc file (or run a .vcgen.py generator that returns .vc text).
    `variables` substitute ${NAME} occurrences."""
    if path.endswith('.py'):
        import importlib.util
        spec = importlib.util.spec_from_file_location("vcgen_" + os.path.basename(path)[:-3].replace('.', '_'), path)
        mod = importlib.util.module_from_spec(spec)
        spec.loader.exec_module(mod)
        txt = mod.generate(dict(variables or {}, REPO=REPO))
    else:
        with open(path) as f:
            txt = f.read()
    if variables:
        for k, v in variables.items():
            txt = txt.replace('${%s}' % k, str(v))
    lines = txt.split('\n')
    u = Unit()
    cur = None
    i = 0

    def block(i):
        # reads until a line that is exactly '>>>'
        buf = []
        while i < len(lines) and lines[i].strip() != '>>>':
            buf.append(lines[i])
            i += 1
        if i >= len(lines):
            raise Lost("%s: unterminated <<< block" % path)
        return '\n'.join(buf), i + 1

    while i < len(lines):
        ln = lines[i]
        st = ln.strip()
        i += 1
        if not st or st.startswith('#'):
            continue
        m = re.match(r'(\w[\w#*?-]*)\s*(.*)$', st)
        kw, rest = m.group(1), m.group(2)
        if kw == 'unit':
            u.name = rest
        elif kw == 'crate':
            u.crate = rest
        elif kw == 'features':
            u.features = rest
        elif kw == 'min_obligations':
            u.min_obligations = int(rest)
        elif kw == 'prelude':
            assert rest == '<<<'
            b, i = block(i)
            u.prelude += b + '\n'
        elif kw in ('fn', 'const', 'static'):
            cur = FnSpec()
            cur.kind = kw
            mm = re.match(r'(\S+)(?:\s+as\s+(\S+))?(?:\s+within\s+/(.*?)/)?(?:\s+nth\s+(\d+))?(?:\s+from\s+(\S+)(?:\s+\[(.*)\])?)?$', rest)
            if not mm:
                raise Lost("%s: bad item line: %s" % (path, st))
            cur.path = mm.group(1)
            cur.alias = mm.group(2)
            cur.within = mm.group(3)
            cur.nth = int(mm.group(4) or 1)
            cur.crate = mm.group(5)
            cur.features = mm.group(6)
            u.fns.append(cur)
        elif kw == 'end':
            cur = None
        elif kw == 'raw':
            cur.raw = True
        elif kw == 'cond':
            # item only present when the (substituted) condition text is truthy
            if rest.strip() in ('', '0', 'false', 'no'):
                u.fns.remove(cur)
                cur.dropped = True
        elif kw == 'like':
            # reuse the substitutions, loop invariants and hints of an earlier item (same source text shape)
            src_spec = next((f for f in u.fns if (f.alias or f.path.split('::')[-1]) == rest and f is not cur), None)
            if src_spec is None:
                raise Lost("%s: `like %s` refers to an unknown item" % (path, rest))
            # copied rules are optional here: the other item need not contain every pattern
            cur.subs += [(a, b, 'sub?') for (a, b, _k) in src_spec.subs]
            cur.hints += [(k if k.endswith('?') else k + '?', n, rx_, t) for (k, n, rx_, t) in src_spec.hints]
            cur.loops.update(src_spec.loops)
        elif kw == 'novac':
            cur.novac = True
        elif kw == 'assumed':
            cur.assumed = True
            cur.novac = True
        elif kw == 'ret':
            cur.ret = rest
        elif kw == 'sub' or kw == 'sub*' or kw == 'sub?':
            mm = re.match(r'/(.*)/\s*=>\s*/(.*)/$', rest)
            if not mm:
                raise Lost("%s: bad sub line: %s" % (path, st))
            cur.subs.append((mm.group(1), mm.group(2), kw))
        elif kw == 'spec':
            assert rest == '<<<'
            b, i = block(i)
            cur.spec += b + '\n'
        elif kw in ('after', 'before', 'after*', 'before*', 'after*?', 'before*?', 'after?', 'before?'):
            mm = re.match(r'(?:#(\d+)\s+)?/(.*)/\s*<<<$', rest)
            if not mm:
                raise Lost("%s: bad hint line: %s" % (path, st))
            b, i = block(i)
            cur.hints.append((kw, int(mm.group(1) or 1), mm.group(2), b))
        elif kw == 'loop':
            mm = re.match(r'(\d+)\s*<<<$', rest)
            b, i = block(i)
            cur.loops[int(mm.group(1))] = b
        elif kw == 'loop*':
            b, i = block(i)
            cur.loops['*'] = b
        else:
            raise Lost("%s: unknown keyword %s" % (path, kw))
    return u


# --------------------------------------------------------------------------
# splicing

def _stmt_end(s, pos):
    """index just after the `;` (depth 0) that ends the statement containing pos,
    or after a `}` closing a block-statement that starts at/after pos."""
    j = pos
    n = len(s)
    while j < n:
        k = _skip_noncode(s, j)
        if k != j:
            j = k
            continue
        c = s[j]
        if c in '([{':
            e = match_close(s, j)
            if c == '{':
                # block statement end (if/while/for bodies): stop unless followed by else / ;
                mm = re.match(r'\s*(else\b|;)', s[e + 1:])
                if mm and mm.group(1) == 'else':
                    j = e + 1
                    continue
                if mm and mm.group(1) == ';':
                    return e + 1 + len(mm.group(0))
                # expression block used as a value continues with an operator, rare
                return e + 1
            j = e + 1
            continue
        if c == ';':
            return j + 1
        if c in '})]':
            # statement is the tail expression of its block: insert right before the block's close
            return j
        j += 1
    raise Lost("statement end not found")


def _line_start(s, pos):
    j = s.rfind('\n', 0, pos)
    return j + 1


def splice(item, spec, stats):
    """Apply subs, name the return value, insert spec / loop invariants / hints."""
    for rx, rep, kw in spec.subs:
        rx = rx.replace(' ', r'\s+')
        new, cnt = re.subn(rx, rep.replace('\\n', '\n'), item, flags=re.S)
        if cnt == 0 and kw != 'sub?':
            raise Lost("sub /%s/ matched nothing in %s" % (rx, spec.path))
        if cnt > 1 and kw == 'sub':
            raise Lost("sub /%s/ matched %d times in %s (use sub*)" % (rx, cnt, spec.path))
        stats['R6'] = stats.get('R6', 0) + cnt
        item = new
    if spec.kind != 'fn':
        return item
    # signature: up to the body's '{'
    j = 0
    n = len(item)
    while j < n and item[j] != '{':
        if item[j] in '([':
            j = match_close(item, j) + 1
        else:
            j += 1
    sig, body = item[:j], item[j:]
    # name the return value
    m = re.search(r'->\s*(.+?)\s*$', sig, re.S)
    if m and not m.group(1).startswith('('+spec.ret):
        rt = m.group(1).strip()
        if rt != '!':
            sig = sig[:m.start()] + '-> (%s: %s)' % (spec.ret, rt) + '\n'
    if spec.alias:
        base = spec.path.split('::')[-1]
        sig, cnt = re.subn(r'\bfn\s+%s\b' % re.escape(base), 'fn ' + spec.alias, sig)
        if cnt != 1:
            raise Lost("cannot rename %s" % spec.path)
    # loops: ordinal over while/for/loop keywords in body order
    if spec.loops:
        rxl = re.compile(r'\b(while|for|loop)\b')
        pos = 0
        ordinal = 0
        inserts = []
        while True:
            m = find_code(body, rxl, pos)
            if not m:
                break
            ordinal += 1
            # find the body's '{'
            k = m.end()
            while k < len(body) and body[k] != '{':
                if body[k] in '([':
                    k = match_close(body, k) + 1
                else:
                    k += 1
            if ordinal in spec.loops:
                inserts.append((k, '\n' + spec.loops[ordinal] + '\n'))
            elif '*' in spec.loops:
                inserts.append((k, '\n' + spec.loops['*'] + '\n'))
            pos = m.end()
        missing = set(spec.loops) - set(range(1, ordinal + 1)) - {'*'}
        if missing:
            raise Lost("loop ordinal(s) %s not found in %s (has %d loops)" % (sorted(missing), spec.path, ordinal))
        for k, t in sorted(inserts, reverse=True):
            body = body[:k] + t + body[k:]
    # hints
    for where, nth, rx, text in spec.hints:
        rx = rx.replace(' ', r'\s+')
        optional = where.endswith('?')
        where = where.rstrip('?')
        if where.endswith('*'):
            # every occurrence; `\\1`.. in the hint text are replaced by the match's groups
            ms = []
            pos = 0
            while True:
                m = find_code(body, re.compile(rx), pos)
                if not m:
                    break
                ms.append(m)
                pos = m.end()
            if not ms and not optional:
                raise Lost("anchor* /%s/ not found in %s" % (rx, spec.path))
            for m in reversed(ms):
                t = text
                for gi in range(1, (m.re.groups or 0) + 1):
                    t = t.replace('\\%d' % gi, m.group(gi) or '')
                if where == 'after*':
                    e = _stmt_end(body, m.start())
                    body = body[:e] + '\n' + t + '\n' + body[e:]
                else:
                    b = _line_start(body, m.start())
                    if body[b:m.start()].strip():
                        b = m.start()
                    body = body[:b] + t + '\n' + body[b:]
            continue
        pos = 0
        m = None
        for _ in range(nth):
            m = find_code(body, re.compile(rx), pos)
            if not m:
                if optional:
                    break
                raise Lost("anchor /%s/ #%d not found in %s" % (rx, nth, spec.path))
            pos = m.end()
        if not m:
            continue
        for gi in range(1, (m.re.groups or 0) + 1):
            text = text.replace('\\%d' % gi, m.group(gi) or '')
        if where == 'after':
            e = _stmt_end(body, m.start())
            body = body[:e] + '\n' + text + '\n' + body[e:]
        else:
            b = _line_start(body, m.start())
            if body[b:m.start()].strip():
                b = m.start()   # the statement shares its line with other code: insert right in front of it
            body = body[:b] + text + '\n' + body[b:]
    return sig.rstrip() + '\n' + spec.spec + body


PRELUDE_HEAD = """#![allow(unused, non_snake_case, non_upper_case_globals, unused_parens, unused_braces)]
use vstd::prelude::*;
verus! {
#[verifier::external_body]
pub fn vpanic() -> ! { panic!() }
#[verifier::external_body]
pub fn vunreachable() -> ! requires false { panic!() }
"""


def build_unit(vc_path, workdir, variables=None, vacuity=False):
    """Generate the Verus file for a unit.  Returns dict(file, fns, stats, linemap)."""
    u = parse_vc(vc_path, variables)
    stats = {}
    parts = [PRELUDE_HEAD, u.prelude]
    fninfo = []
    for spec in u.fns:
        crate_text = expand(spec.crate or u.crate, spec.features if spec.features is not None else u.features, workdir)
        modpath, _, name = spec.path.rpartition('::')
        item = find_item(crate_text, modpath, spec.kind, name, spec.nth, spec.within)
        src_hash = hashlib.sha256(item.encode()).hexdigest()[:12]
        if spec.assumed:
            item = strip_attrs_docs(item, stats)
            item = rw_unsafe(item, stats)
            j = 0
            while item[j] != '{':
                j = match_close(item, j) + 1 if item[j] in '([' else j + 1
            item = '#[verifier::external_body]\n' + item[:j] + '{ unimplemented!() }'
        elif spec.raw:
            item = strip_attrs_docs(item, stats)
        else:
            item = standard_rewrites(item, stats)
        item = splice(item, spec, stats)
        if vacuity and spec.kind == 'fn' and not spec.novac:
            # assert(false) as first statement: must FAIL, else requires is contradictory
            j = 0
            while item[j] != '{' or _in_spec(item, j):
                if item[j] in '([':
                    j = match_close(item, j) + 1
                else:
                    j += 1
            item = item[:j + 1] + ' assert(false); /*VACUITY*/ ' + item[j + 1:]
        fninfo.append(dict(path=spec.path, alias=spec.alias or name, kind=spec.kind, src_hash=src_hash,
                           novac=spec.novac, assumed=spec.assumed))
        parts.append('// ---- %s (from %s [%s])\n' % (spec.path, spec.crate or u.crate, u.features))
        parts.append(item + '\n')
    parts.append('} // verus!\nfn main() {}\n')
    src = '\n'.join(parts)
    os.makedirs(workdir, exist_ok=True)
    fn = os.path.join(workdir, '%s%s.rs' % (re.sub(r'[^A-Za-z0-9_]', '_', u.name), '_vac' if vacuity else ''))
    with open(fn, 'w') as f:
        f.write(src)
    # line map: line number -> fn path
    linemap = []
    cur = None
    for no, ln in enumerate(src.split('\n'), 1):
        if ln.startswith('// ---- '):
            cur = ln[8:].split(' ')[0]
        linemap.append(cur)
    return dict(file=fn, unit=u, fns=fninfo, stats=stats, linemap=linemap, src=src)


def _in_spec(item, j):
    """True if the '{' at j belongs to the signature's spec clauses (e.g. set literals) -
    we identify the body brace as the first '{' that follows the last spec line."""
    # spec text never contains a '{' at depth 0 in our .vc files except closures `|x| {`;
    # those are avoided by convention.  Keep simple.
    return False
