//! Developer aid / witness search: power-of-two radix parsing vs exact oracle on random and structured digit strings.
use lexverif::h_float_bin::{cmp_bin, cmp_bin_fn};
fn run<const F: u128>(radix: u32, k: u32, nd: usize, x: &mut u64) -> (u64, u64, Option<Vec<u8>>) {
    let (mut n, mut bad) = (0u64, 0u64); let mut first = None;
    for it in 0..200000u64 {
        let mut ds = vec![0u8; nd];
        for d in ds.iter_mut() { *x ^= *x << 13; *x ^= *x >> 7; *x ^= *x << 17; *d = (*x % radix as u64) as u8; }
        if it % 2 == 0 { // near-halfway structure: 1, zeros, then a 1 bit near bit 53/54, zeros, one late non-zero digit
            for d in ds.iter_mut().skip(1) { *d = 0; }
            ds[0] = 1 + (*x % (radix as u64 - 1).max(1)) as u8 % (radix as u8 - 1);
            let pos = 1 + ((53 / k) as usize).min(nd - 2) + (it as usize / 2) % 2;
            if pos < nd { ds[pos.min(nd-1)] = 1 << ((it / 4) % k as u64); }
            let late = nd - 1 - (it as usize / 8) % 4;
            if it % 16 < 8 { ds[late] = 1 + (*x % (radix as u64 - 1)) as u8; }
        }
        if ds[0] == 0 { ds[0] = 1; }
        n += 1;
        if cmp_bin::<F>(&ds, 1, k).is_err() || (nd > lexical_util::step::u64_step(radix) && cmp_bin_fn::<F>(&ds, k, radix).is_err()) { bad += 1; if first.is_none() { first = Some(ds.clone()); } }
    }
    (n, bad, first)
}
fn main() {
    let mut x = 0x9E3779B97F4A7C15u64;
    macro_rules! go { ($r:expr, $k:expr, $n:expr) => {{ let (n, bad, f) = run::<{ lexverif::radix_format($r) }>($r, $k, $n, &mut x); println!("radix {} digits {}: {} cases, {} mismatches, first {:?}", $r, $n, n, bad, f); }}; }
    go!(2, 1, 40); go!(2, 1, 70); go!(4, 2, 40); go!(16, 4, 24); go!(4, 2, 34); go!(8, 3, 24); go!(16, 4, 18); go!(32, 5, 14); go!(8, 3, 30); go!(32, 5, 20);
}
