"""Kani units: contract harnesses over the real crates (path deps on /repo).

Harness metadata lives next to the harness as `/// @key value` doc lines:
  @prop C03 C09      properties served
  @tier quick|thorough
  @feat default radix ...   feature sets of the harness crate to run under
  @bound <text>      bounded stand-in (absent => complete proof over the full domain)
  @fn <repo path>    function(s) under contract
  @assume <text>     assumption / stub used
  @timeout <secs>
  @stub <callee: contract>   a callee is replaced by its contract through kani::stub (listed as an assumption)
  @mem <GB>        observed peak memory of the CBMC run (default 4); bounds the parallelism of the group
  @tolerate panic    (C09 short-buffer harnesses) panic-class failures are allowed, memory-safety ones are not
"""
import os
import re
import subprocess
import time
import json

from core import Obl, UnitResult, log, VERIF, REPO

KANI_DIR = os.environ.get("VERIF_KANI_DIR") or os.path.join(VERIF, "kani")

FEATURE_SETS = {
    "default": "",
    "compact": "compact",
    "pow2": "power-of-two",
    "radix": "radix",
    "format": "format",
    "radix_format": "radix,format",
    "compact_radix_format": "compact,radix,format",
    "compact_radix": "compact,radix",
    "pow2_format": "power-of-two,format",
}

MEMORY_CLASSES = ("pointer_dereference", "pointer", "memory-leak", "bounds", "array_bounds", "NaN", "dereference failure",
                  "pointer NULL", "pointer invalid", "outside object bounds", "deallocated", "dead object",
                  "invalid integer address", "misaligned", "index out of bounds: the length is")


class H:
    def __init__(self, name, module):
        self.name = name
        self.module = module
        self.props = []
        self.tier = "quick"
        self.feats = ["default"]
        self.bound = None
        self.fns = []
        self.assumes = []
        self.timeout = 900
        self.mem_gb = 4
        self.stubbed = False
        self.thorough_only = set()
        self.tolerate = None
        self.doc = ""
        self.quickfeats = 1


def load_harnesses():
    hs = {}
    src = os.path.join(KANI_DIR, "src")
    for fn in sorted(os.listdir(src)):
        if not fn.startswith("h_") or not fn.endswith(".rs"):
            continue
        lines = open(os.path.join(src, fn)).read().split("\n")
        meta = []
        submod = None
        for ln in lines:
            mm_ = re.match(r'^pub mod (\w+)\s*\{', ln)
            if mm_:
                submod = mm_.group(1)
            elif ln.startswith("}"):
                submod = None
            st = ln.strip()
            if st.startswith("///"):
                meta.append(st[3:].strip())
                continue
            m = re.match(r'(?:pub\s+)?fn\s+(\w+)\s*\(\s*\)', st)
            if m and meta:
                h = H(m.group(1), fn[:-3])
                h.path = "%s::%s%s" % (fn[:-3], (submod + "::") if submod else "", m.group(1))
                doc = []
                for t in meta:
                    mm = re.match(r'@(\w+)\s*(.*)$', t)
                    if not mm:
                        doc.append(t)
                        continue
                    k, v = mm.group(1), mm.group(2).strip()
                    if k == "prop":
                        # "C10~" = the harness belongs to C10 only in the thorough tier (keeps quick tiers disjoint-ish)
                        for tok in v.split():
                            if tok.endswith("~"):
                                h.props.append(tok[:-1])
                                h.thorough_only.add(tok[:-1])
                            else:
                                h.props.append(tok)
                    elif k == "tier":
                        h.tier = v
                    elif k == "feat":
                        h.feats = v.split()
                    elif k == "bound":
                        h.bound = v
                    elif k == "fn":
                        h.fns.append(v)
                    elif k == "assume":
                        h.assumes.append(v)
                    elif k == "timeout":
                        h.timeout = int(v)
                    elif k == "mem":
                        h.mem_gb = int(v)
                    elif k == "stub":
                        h.stubbed = True
                        h.assumes.append("callee replaced by its contract (Kani stub): " + v)
                    elif k == "tolerate":
                        h.tolerate = v
                    elif k == "quickfeats":
                        h.quickfeats = int(v)
                h.doc = " ".join(doc)
                if h.props:
                    hs[h.name] = h
                meta = []
            elif st.startswith("#["):
                continue
            else:
                meta = []
    return hs


def _env():
    env = dict(os.environ)
    env["CARGO_NET_OFFLINE"] = "true"
    env["RUSTFLAGS"] = "--cfg lexical_verif"   # the guard of the add-only hooks in /repo
    return env


def _sync_lock():
    src = os.path.join(REPO, "Cargo.lock")
    dst = os.path.join(KANI_DIR, "Cargo.lock")
    try:
        if os.path.exists(src) and not os.path.exists(dst):
            import shutil
            shutil.copy(src, dst)
    except Exception:
        pass


def _target_dir(featset):
    return os.path.join(KANI_DIR, "target", featset)


def _base_cmd(featset, extra_z=(), suffix=""):
    cmd = ["cargo", "kani", "--target-dir", _target_dir(featset) + suffix, "-Z", "stubbing", "-Z", "unstable-options"]
    for z in extra_z:
        cmd += ["-Z", z]
    feats = FEATURE_SETS[featset]
    if feats:
        cmd += ["--features", feats]
    return cmd


def parse_terse(text):
    """-> {harness: dict(status, checks, failed, unreachable, failed_checks:[(desc, loc)], time)}"""
    res = {}
    # split by "Checking harness X..."
    parts = re.split(r'(?:Thread \d+: )?Checking harness ([\w:]+)\.\.\.', text)
    for i in range(1, len(parts), 2):
        name = parts[i].split("::")[-1]
        body = parts[i + 1]
        d = dict(status=None, checks=0, failed=0, unreachable=0, failed_checks=[], time=0.0, raw=body[-6000:])
        m = re.search(r'\*\* (\d+) of (\d+) failed(?: \((.*?)\))?', body)
        if m:
            d["failed"] = int(m.group(1))
            d["checks"] = int(m.group(2))
        for fm in re.finditer(r'Failed Checks: (.*)\n\s*File: "(.*?)", line (\d+), in (.*)', body):
            d["failed_checks"].append((fm.group(1).strip(), "%s:%s in %s" % (fm.group(2), fm.group(3), fm.group(4).strip())))
        m = re.search(r'VERIFICATION:- (SUCCESSFUL|FAILED)', body)
        if m:
            d["status"] = m.group(1)
        m = re.search(r'Verification Time: ([\d.]+)s', body)
        if m:
            d["time"] = float(m.group(1))
        if re.search(r'CBMC failed|timed out|Timeout|out of memory|Killed|signal', body) and d["status"] is None:
            d["status"] = "TIMEOUT"
        m = re.search(r'(\d+) of (\d+) cover properties satisfied', body)
        if m:
            d["covers"] = (int(m.group(1)), int(m.group(2)))
        res[name] = d
    return res



def per_harness_results(text):
    """With -j N the result blocks are prefixed by "Thread k: " and belong to the harness last announced on thread k.
    -> {harness: (status, seconds)}   (best effort, used for timing evidence only; verdicts come from the summary)"""
    cur = {}
    out = {}
    th = None
    for line in text.split("\n"):
        m = re.match(r'Thread (\d+): Checking harness ([\w:]+)\.\.\.', line)
        if m:
            cur[m.group(1)] = m.group(2).split("::")[-1]
            th = None
            continue
        m = re.match(r'Thread (\d+):\s*$', line)
        if m:
            th = m.group(1)
            continue
        if th is not None and th in cur:
            m = re.search(r'VERIFICATION:- (SUCCESSFUL|FAILED)', line)
            if m:
                out.setdefault(cur[th], [None, 0.0])[0] = m.group(1)
            m = re.search(r'Verification Time: ([\d.]+)s', line)
            if m:
                out.setdefault(cur[th], [None, 0.0])[1] = float(m.group(1))
            if "timed out" in line or "CBMC failed" in line:
                out.setdefault(cur[th], ["TIMEOUT", 0.0])[0] = "TIMEOUT"
            m = re.search(r'\*\* (\d+) of (\d+) cover properties satisfied', line)
            if m and int(m.group(1)) < int(m.group(2)):
                COVER_MISS.add(cur[th])
    return {k: tuple(v) for k, v in out.items()}


# harnesses whose result block reported an unsatisfied cover property (filled by per_harness_results)
COVER_MISS = set()


def _classify_failed(desc):
    if "unwinding assertion" in desc:
        return "unwind"
    if any(c in desc for c in MEMORY_CLASSES):
        return "memory"
    return "assert"


def playback(h, featset, timeout, suffix=""):
    """Re-run ONE failing harness alone (unambiguous output) for its failed checks and a concrete counterexample.
    -> (vals or None, parsed_result_dict, raw_tail)"""
    cmd = _base_cmd(featset, ("concrete-playback",), suffix) + ["--harness", h.path, "--exact", "--concrete-playback=print",
                                                         "--output-format=terse", "--harness-timeout", "%ds" % timeout]
    try:
        p = subprocess.run(cmd, cwd=KANI_DIR, env=_env(), stdout=subprocess.PIPE, stderr=subprocess.STDOUT,
                           text=True, timeout=timeout + 600)
    except subprocess.TimeoutExpired:
        return None, dict(status="TIMEOUT", failed_checks=[], checks=0, failed=0, raw=""), "playback timeout"
    out = p.stdout
    d = dict(status=None, checks=0, failed=0, failed_checks=[], raw=out[-6000:])
    m = re.search(r'\*\* (\d+) of (\d+) failed', out)
    if m:
        d["failed"], d["checks"] = int(m.group(1)), int(m.group(2))
    for fm in re.finditer(r'Failed Checks: (.*)\n\s*File: "(.*?)", line (\d+), in (.*)', out):
        d["failed_checks"].append((fm.group(1).strip(), "%s:%s in %s" % (fm.group(2), fm.group(3), fm.group(4).strip())))
    if re.search(r'CBMC timed out|out of memory|Killed', out):
        d["status"] = "TIMEOUT"
    else:
        m = re.search(r'VERIFICATION:- (SUCCESSFUL|FAILED)', out)
        d["status"] = m.group(1) if m else None
    vals = None
    # one playback test is printed per failed check AND per satisfied cover property: take the first one that belongs
    # to a failed check (a cover's witness is an input on which nothing fails)
    for seg in out.split("Concrete playback unit test for")[1:]:
        kind = re.search(r'Check for `(\w+)`', seg)
        if kind and kind.group(1) == "cover":
            continue
        m = re.search(r'let concrete_vals: Vec<Vec<u8>> = vec!\[(.*?)\n\s*\];', seg, re.S)
        if m:
            vals = []
            for vm in re.finditer(r'vec!\[([\d, ]*)\]', m.group(1)):
                t = vm.group(1).strip()
                vals.append([int(x) for x in t.split(",") if x.strip()] if t else [])
            break
    return vals, d, out[-3000:]


def native_replay(h, featset, vals, timeout=600):
    """Run the same harness body natively on the real code with the counterexample's values."""
    hexs = ",".join("".join("%02x" % b for b in v) for v in vals)
    feats = FEATURE_SETS[featset]
    cmd = ["cargo", "run", "-q", "--offline", "--target-dir", os.path.join(KANI_DIR, "target", "native-" + featset),
           "--bin", "replay"]
    if feats:
        cmd += ["--features", feats]
    cmd += ["--", h.name, hexs]
    try:
        p = subprocess.run(cmd, cwd=KANI_DIR, env=_env(), stdout=subprocess.PIPE, stderr=subprocess.PIPE, text=True,
                           timeout=timeout)
    except subprocess.TimeoutExpired:
        return "timeout", ""
    outp = p.stdout.strip().split("\n")[-1] if p.stdout.strip() else ""
    if "REPLAY-CONFIRMED" in outp:
        return "confirmed", outp
    if "REPLAY-PASSED" in outp:
        return "passed", outp
    if "REPLAY-DIVERGED" in outp:
        return "diverged", outp
    return "error", (p.stdout + p.stderr)[-1500:]


def run_group(label, hs, featset, jobs=8):
    """Verify harnesses `hs` (list of H) under one feature set with one cargo-kani invocation."""
    r = UnitResult(label)
    r.backend = "kani 0.68.0 / cbmc 6.11 / cadical"
    t0 = time.time()
    if not hs:
        r.error = "vacuity guard: kani group %s has no harnesses" % label
        return r
    _sync_lock()
    # harnesses named by a known finding are expected to fail: they are run once, alone (the run that also yields the
    # counterexample), concurrently with the batch and in their own target directory, instead of batch + re-run
    import core as _core
    import threading
    krx = [k["rx"] for k in _core.load_known()]
    pre = [h for h in hs if any(re.search(rx, "kani::%s[%s]" % (h.name, featset)) for rx in krx)]
    pre_res = {}
    pre_threads = []
    for h in pre:
        th = threading.Thread(target=lambda h=h: pre_res.__setitem__(h.name, playback(h, featset, h.timeout, suffix="-known")))
        th.start()
        pre_threads.append(th)
    all_hs = hs
    hs = [h for h in hs if h not in pre]
    if not hs:
        for th in pre_threads:
            th.join()
        return _finish_group(r, label, all_hs, featset, "", set(h.name for h in pre), {}, 0, jobs, t0, pre_res, max(h.timeout for h in all_hs))
    tmo = max(h.timeout for h in hs)
    # memory budget: the sandbox has 62 GB and no swap; @mem <GB> is the observed peak of a harness
    jobs = max(1, min(jobs, int(44 // max(h.mem_gb for h in hs))))
    cmd = _base_cmd(featset) + ["--output-format=terse", "-j", str(jobs), "--harness-timeout", "%ds" % tmo]
    for h in hs:
        cmd += ["--harness", h.path]
    cmd.append("--exact")     # --harness alone is a substring filter
    r.cmds.append("cargo kani -Z stubbing [--features %s] --harness <...> (crate /verif/kani, path deps on /repo)" % (FEATURE_SETS[featset] or "<none>"))
    try:
        p = subprocess.run(cmd, cwd=KANI_DIR, env=_env(), stdout=subprocess.PIPE, stderr=subprocess.STDOUT, text=True,
                           timeout=tmo * max(1, (len(hs) + jobs - 1) // jobs) + 900)
        text = p.stdout
    except subprocess.TimeoutExpired as e:
        r.error = "cargo kani group %s timed out" % label
        r.wall_s = time.time() - t0
        return r
    if "error: could not compile" in text or "error[E" in text:
        tail = "\n".join(l for l in text.split("\n") if l.startswith("error") or "-->" in l)[:3000]
        r.error = "harness crate does not compile against the current tree (tool limit, not an alarm) [%s]:\n%s" % (featset, tail)
        r.wall_s = time.time() - t0
        return r
    # With -j the per-harness result blocks are interleaved and unlabeled; only the final summary is authoritative.
    failed_names = {n.split("::")[-1] for n in re.findall(r'Verification failed for - ([\w:]+)', text)}
    msum = re.search(r'Complete - (\d+) successfully verified harnesses, (\d+) failures, (\d+) total', text)
    if not msum or int(msum.group(3)) != len(hs):
        r.error = "cargo kani group %s: no/inconsistent summary (%s harnesses requested)\n%s" % (label, len(hs), text[-2500:])
        r.wall_s = time.time() - t0
        for th in pre_threads:
            th.join()
        return r
    for th in pre_threads:
        th.join()
    failed_names |= set(h.name for h in pre)
    return _finish_group(r, label, all_hs, featset, text, failed_names, per_harness_results(text), len(hs), jobs, t0, pre_res, tmo)


def _finish_group(r, label, hs, featset, text, failed_names, times, n_batch, jobs, t0, pre_res, tmo):
    blocks = [(int(a), int(b)) for a, b in re.findall(r'\*\* (\d+) of (\d+) failed', text)]
    ok_checks = sum(b for a, b in blocks if a == 0)
    covers_bad = [m for m in re.findall(r'\*\* (\d+) of (\d+) cover properties satisfied', text) if int(m[0]) < int(m[1])]
    n_ok = len(hs) - len(failed_names)
    r.solver_s += sum(float(x) for x in re.findall(r'Verification Time: ([\d.]+)s', text))
    r.samples.append({"kani_group": label, "harnesses": len(hs), "verified": n_ok, "cbmc_checks_in_verified_harnesses": ok_checks,
                      "parallel_jobs": jobs, "seconds_per_harness": {k: round(v[1], 1) for k, v in sorted(times.items())}})
    for h in hs:
        oname = "kani::%s[%s]" % (h.name, featset)
        for f in h.fns:
            r.functions.append("%s [%s]" % (f, FEATURE_SETS[featset] or "default features"))
        for a_ in h.assumes:
            r.assumptions.append("harness %s: %s" % (h.name, a_))
        if h.name not in failed_names:
            # vacuity guard: an unsatisfied cover property taints the harness it belongs to (the whole group when the
            # result blocks cannot be attributed, i.e. without -j)
            if covers_bad and (h.name in COVER_MISS or not (COVER_MISS & {x.name for x in hs})):
                r.obls.append(Obl(oname, label, "kani-cbmc", "undecided", bounded=h.bound,
                                  detail="vacuity guard: a cover property of this harness is unreachable: %s" % covers_bad))
                continue
            r.obls.append(Obl(oname, label, "kani-cbmc", "discharged", bounded=h.bound, count=1, sample=h.doc))
            r.samples.append({"harness": h.name, "features": FEATURE_SETS[featset] or "default",
                              "bound": h.bound or "none (full domain)", "what": h.doc[:300]})
            continue
        # timed out in the batch (per-thread result block says so): undecided, no second attempt
        if times.get(h.name, (None, 0))[0] == "TIMEOUT":
            r.obls.append(Obl(oname, label, "kani-cbmc", "undecided", bounded=h.bound,
                              detail="no result within %ds in the batch run (timeout / out of memory)" % tmo))
            continue
        # failed in the batch: re-run alone for an unambiguous verdict + counterexample (known-finding harnesses were
        # run that way in the first place)
        vals, d, pb = pre_res[h.name] if h.name in pre_res else playback(h, featset, h.timeout)
        if d["status"] in (None, "TIMEOUT"):
            r.obls.append(Obl(oname, label, "kani-cbmc", "undecided", bounded=h.bound,
                              detail="no result within %ds (timeout / out of memory)" % h.timeout))
            continue
        if d["status"] == "SUCCESSFUL":
            r.obls.append(Obl(oname, label, "kani-cbmc", "discharged", bounded=h.bound, count=1, sample=h.doc))
            continue
        classes = {}
        for desc, loc in d["failed_checks"]:
            classes.setdefault(_classify_failed(desc), []).append((desc, loc))
        if not d["failed_checks"]:
            classes["assert"] = [("(failed check not listed)", "")]
        if h.tolerate == "panic":
            classes.pop("assert", None)
        elif h.tolerate:
            for k in list(classes):
                classes[k] = [c for c in classes[k] if not re.search(h.tolerate, c[1])]
                if not classes[k]:
                    classes.pop(k)
        if not classes:
            r.obls.append(Obl(oname, label, "kani-cbmc", "discharged", bounded=h.bound, count=1, sample=h.doc))
            continue
        if set(classes) <= {"unwind"}:
            r.obls.append(Obl(oname, label, "kani-cbmc", "undecided", bounded=h.bound,
                              detail="unwinding bound exceeded (harness bound too small for the current code): %s" % classes))
            continue
        first = next((c for k in ("memory", "assert") for c in classes.get(k, [])), ("?", "?"))
        detail = "failed checks: " + "; ".join("%s @ %s" % c for k in classes for c in classes[k])[:3000] + "\n" + d["raw"][-2500:]
        cex = None
        if vals is not None:
            st, msg = native_replay(h, featset, vals)
            cex = dict(harness=h.name, features=FEATURE_SETS[featset], concrete_vals=vals, native_replay=st,
                       native_output=msg, confirmed_native=(st == "confirmed"),
                       replay_cmd="cd /verif/kani && RUSTFLAGS='--cfg lexical_verif' cargo run --offline --bin replay %s-- %s %s" % (
                           ("--features %s " % FEATURE_SETS[featset]) if FEATURE_SETS[featset] else "", h.name,
                           ",".join("".join("%02x" % b_ for b_ in v) for v in vals)))
            if st == "passed" and "memory" not in classes and h.stubbed:
                # a callee was replaced by its contract: the counterexample's callee results need not be realisable natively.
                # The obligation passed on the unchanged tree and fails now: report it, without a failing input.
                cex["confirmed_native"] = False
                cex["note"] = "harness replaces a callee by its contract (Kani stub); concrete callee results are not replayable"
            elif st == "passed" and "memory" not in classes:
                r.obls.append(Obl(oname, label, "kani-cbmc", "undecided", bounded=h.bound,
                                  detail="kani counterexample did not reproduce natively (model artefact?)\n" + detail, cex=cex))
                continue
        name = "%s::%s" % (oname, re.sub(r'\s+', ' ', first[0])[:90])
        r.obls.append(Obl(name, label, "kani-cbmc", "failed", bounded=h.bound, detail=detail, cex=cex))
    r.wall_s = time.time() - t0
    return r
