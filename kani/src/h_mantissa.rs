//! PF8 / C01: `slow::parse_mantissa` (the digit -> big-integer step of the slow path) truncates to `max_digits` significant
//! digits and records every dropped non-zero digit as a sticky "+1 after one more digit", so that a truncated value can
//! never look like an exact halfway point. Exercised with a small `max_digits` (it is a parameter of the real function).
//! With symbolic slice lengths the 62-limb `StackVec` drives CBMC beyond 35 GB even for 5 input digits, so that harness is `deep` only;
//! the variant with concrete lengths (3 integer digits, 1 fraction digit) takes 225 s / 5.4 GB and is in the quick tier.
//! (kept wording of the original note:) OUT OF REACH in practice for symbolic lengths, so
//! the harness is in the unregistered `deep` tier only; the reference is validated natively by `examples/sweep_mantissa.rs`.
use crate::vk::{any, assume, cover};
use crate::vcheck;
use lexical_parse_float::number::Number;
use lexical_parse_float::slow::parse_mantissa;

const F: u128 = lexical_util::format::STANDARD;

/// Reference: D = integer digits without leading zeros ++ fraction digits (leading fraction zeros skipped too when there is no
/// significant integer digit). kept = first min(|D|, max) digits. If a dropped digit is non-zero: (value(kept) * 10 + 1, max + 1),
/// otherwise (value(kept), |kept|).
pub fn spec_parse_mantissa(int: &[u8], frac: Option<&[u8]>, max: usize) -> (u64, usize) {
    let mut v: u64 = 0; let mut count = 0usize; let mut sticky = false;
    let mut i = 0;
    while i < int.len() && int[i] == b'0' { i += 1; }
    while i < int.len() { if count < max { v = v * 10 + (int[i] - b'0') as u64; count += 1; } else if int[i] != b'0' { sticky = true; } i += 1; }
    if let Some(f) = frac {
        let mut j = 0;
        if count == 0 { while j < f.len() && f[j] == b'0' { j += 1; } }
        while j < f.len() { if count < max { v = v * 10 + (f[j] - b'0') as u64; count += 1; } else if f[j] != b'0' { sticky = true; } j += 1; }
    }
    if sticky { (v * 10 + 1, count + 1) } else { (v, count) }
}

pub fn cmp_parse_mantissa(int: &[u8], frac: Option<&[u8]>, max: usize) -> Result<(), &'static str> {
    let num = Number { exponent: 0, mantissa: 0, is_negative: false, many_digits: true, integer: int, fraction: frac };
    let (big, count) = parse_mantissa::<F>(num, max);
    let (wv, wc) = spec_parse_mantissa(int, frac, max);
    if count != wc { return Err("parse_mantissa: digit count == min(significant digits, max_digits) (+1 when a dropped digit is non-zero)"); }
    let got: u64 = if big.data.len() == 0 { 0 } else if big.data.len() == 1 { big.data[0] as u64 } else { return Err("parse_mantissa: the value of at most max_digits + 1 digits fits one limb"); };
    if got != wv { return Err("parse_mantissa: value == kept digits, with a sticky digit 1 appended iff a dropped digit is non-zero"); }
    Ok(())
}

macro_rules! pm_body {
    ($LI:expr, $LF:expr, $max:expr) => {{
        let ib: [u8; $LI] = any();
        let fb: [u8; $LF] = any();
        let il: usize = any(); let fl: usize = any(); let has_frac: bool = any();
        assume(il <= $LI && fl <= $LF);
        let mut i = 0;
        while i < $LI { assume(ib[i] >= b'0' && ib[i] <= b'9'); i += 1; }
        let mut j = 0;
        while j < $LF { assume(fb[j] >= b'0' && fb[j] <= b'9'); j += 1; }
        let r = cmp_parse_mantissa(&ib[..il], if has_frac { Some(&fb[..fl]) } else { None }, $max);
        vcheck!(r.is_ok(), "parse_mantissa keeps max_digits digits and records dropped non-zero digits as a sticky digit");
        cover(il == $LI && has_frac && fl == $LF);
    }};
}

/// Fixed-length variant: every slice length is concrete, only the digits are symbolic.
macro_rules! pm_fixed {
    ($LI:expr, $LF:expr, $max:expr) => {{
        let ib: [u8; $LI] = any();
        let fb: [u8; $LF] = any();
        let mut i = 0;
        while i < $LI { assume(ib[i] >= b'0' && ib[i] <= b'9'); i += 1; }
        let mut j = 0;
        while j < $LF { assume(fb[j] >= b'0' && fb[j] <= b'9'); j += 1; }
        let r = cmp_parse_mantissa(&ib[..], Some(&fb[..]), $max);
        vcheck!(r.is_ok(), "parse_mantissa keeps max_digits digits and records dropped non-zero digits (integer and fraction) as a sticky digit");
        cover(ib[0] != b'0' && ib[$LI - 1] == b'0' && fb[$LF - 1] != b'0');
    }};
}

crate::harnesses! {
    /// parse_mantissa with max_digits = 2: integer part <= 3 digits, optional fraction <= 2 digits (all digit strings).
    /// @prop C01 C05
    /// @tier deep
    /// @mem 40
    /// @feat default compact
    /// @bound max_digits = 2; integer digits <= 3, fraction digits <= 2 (decimal)
    /// @fn lexical-parse-float::slow::parse_mantissa
    /// @fn lexical-parse-float::slow::{add_digit!, add_temporary!, round_up_nonzero!, round_up_truncated!}
    /// @timeout 1500
    #[cfg_attr(kani, kani::unwind(5))]
    fn slow_parse_mantissa_max2() { pm_body!(3, 2, 2) }
    /// parse_mantissa with max_digits = 2, integer part of exactly 3 digits and a fraction of exactly 1 digit: the integer part
    /// alone fills max_digits, so the sticky digit must come from the remaining integer digit OR the fraction.
    /// @prop C01 C05
    /// @tier quick
    /// @feat default
    /// @bound max_digits = 2; integer digits == 3, fraction digits == 1 (decimal, all 10^4 digit strings)
    /// @mem 6
    /// @fn lexical-parse-float::slow::parse_mantissa
    /// @fn lexical-parse-float::slow::{add_digit!, add_temporary!, round_up_nonzero!, round_up_truncated!}
    /// @timeout 600
    #[cfg_attr(kani, kani::unwind(5))]
    fn slow_parse_mantissa_max2_int3_frac1() { pm_fixed!(3, 1, 2) }
}
