"""Contract unit W5: 128-bit radix-generic integer writer (lexical-write-integer::algorithm::algorithm_u128 and
write_step_digits::<u64>).  The spec vocabulary (numeral, ndigits, table_ok, ...) is the prelude of wi_radix.vc; the
callees proved in other units are restated as assumed contracts, each naming the unit that discharges it."""
import os
import re

HERE = os.path.dirname(os.path.abspath(__file__))

NEW = open(os.path.join(HERE, 'wi_u128.prelude')).read()

ITEMS = r'''
# ---- callees proved elsewhere (cross-unit restatements)
fn algorithm::write_digits as write_digits_u64
  assumed
  sub /<T: UnsignedInteger>/ => //
  sub /mut value: T/ => /value: u64/
  spec <<<
    // ASSUME: contract of write_digits::<u64> -- discharged by Verus unit wi_radix-u64 on the same extracted code; restated here
    requires 2 <= radix <= 36, table_ok(table@, radix as nat), old(buffer).len() >= count,
        index <= old(buffer).len(), index >= ndigits(value as nat, radix as nat),
    ensures final(buffer).len() == old(buffer).len(),
        ret == index - ndigits(value as nat, radix as nat),
        final(buffer)@.subrange(ret as int, index as int) =~= numeral(value as nat, radix as nat),
        forall|i: int| 0 <= i < final(buffer).len() && (i < ret || i >= index) ==> final(buffer)@[i] == old(buffer)@[i],
>>>
end

fn algorithm::algorithm as algorithm_u64
  assumed
  sub /<T>/ => //
  sub /value: T,/ => /value: u64,/
  sub /where\s+T: UnsignedInteger \+ DigitCount/ => //
  spec <<<
    // ASSUME: contract of algorithm::<u64> -- discharged by Verus unit wi_radix-u64; restated here
    requires table_ok(table@, radix as nat),
    ensures final(buffer).len() == old(buffer).len(),
        ret == ndigits(value as nat, radix as nat), ret <= old(buffer).len(), 2 <= radix <= 36,
        final(buffer)@.subrange(0, ret as int) =~= numeral(value as nat, radix as nat),
        forall|i: int| ret <= i < final(buffer).len() ==> final(buffer)@[i] == old(buffer)@[i],
>>>
end

fn digit_count::digit_count as digit_count_u128 within /pub unsafe trait DigitCount/
  assumed
  sub /\(self, radix: u32\)/ => /(x: u128, radix: u32)/
  spec <<<
    // ASSUME: contract of <u128 as DigitCount>::digit_count -- discharged by Verus unit wi_radix-u128; restated here
    ensures ret == ndigits(x as nat, radix as nat), 2 <= radix <= 36
>>>
end

fn step::u64_step from lexical-util [write-integers,radix]
  assumed
  sub /\bconst fn\b/ => /fn/
  spec <<<
    // ASSUME: u64_step(r) = k with 2^32 <= r^k <= 2^64 -- discharged by row unit util-step (min_step_N[64,unsigned] facts, both directions); restated here
    requires 2 <= radix <= 36
    ensures ret == step_of(radix), 1 <= ret <= 64, pwl(radix as nat, ret as nat) <= 0x1_0000_0000_0000_0000nat, pwl(radix as nat, ret as nat) >= 0x1_0000_0000nat
>>>
end

fn div128::u128_divrem from lexical-util [write-integers,radix]
  assumed
  spec <<<
    // ASSUME: u128_divrem(n, r) = (n / r^u64_step(r), n % r^u64_step(r)) -- discharged by Verus unit div128-radix (quotient/remainder by the wrapper's divisor) and row unit util-step (divisor literal == r^u64_step(r)); restated here
    requires 2 <= radix <= 36
    ensures ret.0 as nat == n as nat / pwl(radix as nat, step_of(radix)), ret.1 as nat == n as nat % pwl(radix as nat, step_of(radix))
>>>
end

# ---- algorithm::write_step_digits::<u64>   (R11: `slice.fill(v)` -> verified helper vx_fill; semantics of slice::fill trusted)
fn algorithm::write_step_digits as write_step_digits_u64
  sub /<T: UnsignedInteger>/ => //
  sub /value: T,/ => /value: u64,/
  sub /debug_assert_radix\(radix\);/ => /assert(2 <= radix && radix <= 36);/
  sub /write_digits\(/ => /write_digits_u64(/
  sub /zeros\.fill\((b'\d')\);/ => /vx_fill(zeros, \1);/
  spec <<<
    requires 2 <= radix <= 36, table_ok(table@, radix as nat), old(buffer).len() >= count, index <= old(buffer).len(),
        step >= 1, index >= step, (value as nat) < pwl(radix as nat, step as nat),
    ensures final(buffer).len() == old(buffer).len(), ret == index - step,
        final(buffer)@.subrange(ret as int, index as int) =~= padr(value as nat, radix as nat, step as nat),
        forall|i: int| 0 <= i < final(buffer).len() && (i < ret || i >= index) ==> final(buffer)@[i] == old(buffer)@[i],
>>>
  after /let start = [^;]*;/ <<<
        proof { lemma_padr_numeral(value as nat, radix as nat, step as nat); }
>>>
  before /let end =/ <<<
        let ghost b1 = buffer@;
>>>
  after /vx_fill\(zeros, b'\d'\);/ <<<
        proof {
            let nd = ndigits(value as nat, radix as nat);
            assert(buffer@.subrange(end as int, start as int) =~= zeroseq((step - nd) as nat) + numeral(value as nat, radix as nat)) by {
                assert(buffer@.subrange(index as int, start as int) =~= b1.subrange(index as int, start as int));
                assert forall|i: int| 0 <= i < step implies buffer@.subrange(end as int, start as int)[i] == (zeroseq((step - nd) as nat) + numeral(value as nat, radix as nat))[i] by {
                    lemma_numeral_len(value as nat, radix as nat);
                    if i < step - nd { } else { assert(buffer@[end + i] == b1.subrange(index as int, start as int)[i - (step - nd)]); }
                }
            }
        }
>>>
end

# ---- algorithm::algorithm_u128   (R6: the const generics FORMAT/MASK/SHIFT are represented by the radix they denote;
# ----                              the format-validity assertion, which can only diverge, is dropped)
fn algorithm::algorithm_u128
  sub /<const FORMAT\s*:\s*u128, const MASK\s*:\s*u128, const SHIFT\s*:\s*i32>\(value: u128,/ => /(value: u128, radix: u32,/
  sub /if \(!NumberFormat::<\{ FORMAT \}> \{\}\.is_valid\(\)\) \{[^}]*\}/ => //
  sub /let radix = radix_from_flags\(FORMAT, MASK, SHIFT\);/ => //
  sub /return algorithm\(/ => /return algorithm_u64(/
  sub /value\.digit_count\(radix\)/ => /digit_count_u128(value, radix)/
  sub* /write_step_digits\(/ => /write_step_digits_u64(/
  sub* /\bwrite_digits\(/ => /write_digits_u64(/
  spec <<<
    requires table_ok(table@, radix as nat),
    ensures final(buffer).len() == old(buffer).len(), 2 <= radix <= 36,
        ret == ndigits(value as nat, radix as nat), ret <= old(buffer).len(),
        final(buffer)@.subrange(0, ret as int) =~= numeral(value as nat, radix as nat),
        forall|i: int| ret <= i < final(buffer).len() ==> final(buffer)@[i] == old(buffer)@[i],
>>>
  before /if !\(\(table\.len\(\) >= \(radix/ <<<
    proof { assert(4 <= radix * radix <= 1296) by(nonlinear_arith) requires 2 <= radix <= 36; }
>>>
  after /let step = [^;]*;/ <<<
        let ghost gr = radix as nat;
        let ghost dd = pwl(gr, step as nat);
        let ghost v0 = value as nat;
        proof {
            assert(v0 >= dd);
            lemma_numeral_split(v0, gr, step as nat);
            lemma_pwl_pos(gr, step as nat);
            lemma_mod_bound(v0 as int, dd as int);
            assert(v0 / dd >= 1) by { lemma_div_is_ordered(dd as int, v0 as int, dd as int); lemma_div_basics(dd as int); }
        }
>>>
  after #1 /let \(value, low\) = [^;]*;/ <<<
        let ghost v1 = value as nat;
>>>
  before #2 /if value <= u64::MAX as u128 \{/ <<<
        let ghost b1 = buffer@;
>>>
  before /return count;/ <<<
            proof {
                assert(buffer@.subrange(0, count as int) =~= buffer@.subrange(0, index as int) + buffer@.subrange(index as int, count as int));
                assert(buffer@.subrange(index as int, count as int) =~= b1.subrange(index as int, count as int));
            }
>>>
  before /let \(value, mid\) =/ <<<
        proof {
            assert(v1 >= dd);
            lemma_numeral_split(v1, gr, step as nat);
            lemma_mod_bound(v1 as int, dd as int);
            assert(v1 / dd >= 1) by { lemma_div_is_ordered(dd as int, v1 as int, dd as int); lemma_div_basics(dd as int); }
            lemma_div_denominator(v0 as int, dd as int, dd as int);
            assert(dd * dd >= 0x1_0000_0000_0000_0000nat) by(nonlinear_arith) requires dd >= 0x1_0000_0000nat;
            assert(v0 < 0x1_0000_0000_0000_0000nat * 0x1_0000_0000_0000_0000nat);
            assert(v1 / dd < 0x1_0000_0000_0000_0000nat) by {
                assert(v0 < (dd * dd) * 0x1_0000_0000_0000_0000nat) by(nonlinear_arith) requires v0 < 0x1_0000_0000_0000_0000nat * 0x1_0000_0000_0000_0000nat, dd * dd >= 0x1_0000_0000_0000_0000nat;
                lemma_div_by_multiple_is_strongly_ordered(v0 as int, ((dd * dd) * 0x1_0000_0000_0000_0000nat) as int, 0x1_0000_0000_0000_0000int, (dd * dd) as int);
                lemma_div_multiples_vanish(0x1_0000_0000_0000_0000int, (dd * dd) as int);
                assert(((dd * dd) * 0x1_0000_0000_0000_0000nat) as int == 0x1_0000_0000_0000_0000int * ((dd * dd) as int)) by(nonlinear_arith);
            }
        }
>>>
  after /let \(value, mid\) = [^;]*;/ <<<
        let ghost v2 = value as nat;
>>>
  before /if index != 0 \{/ <<<
        let ghost b2 = buffer@;
>>>
  before /count\s*\}\s*$/ <<<
        proof {
            let i2 = ndigits(v2, gr) as int;
            let i1 = ndigits(v1, gr) as int;
            assert(buffer@.subrange(0, count as int) =~= buffer@.subrange(0, i2) + buffer@.subrange(i2, i1) + buffer@.subrange(i1, count as int));
            assert(buffer@.subrange(i2, i1) =~= b2.subrange(i2, i1));
            assert(buffer@.subrange(i1, count as int) =~= b1.subrange(i1, count as int));
        }
>>>
end
'''


def generate(ctx):
    vc = open(os.path.join(HERE, 'wi_radix.vc')).read()
    a = vc.index('prelude <<<') + len('prelude <<<')
    b = vc.index('\n>>>', a)
    pre = vc[a:b].replace('${T}', 'u64').replace('${BITS}', '64')
    head = ['unit wi_u128', 'crate lexical-write-integer', 'features radix', 'min_obligations 10', 'prelude <<<', pre, NEW, '>>>']
    return '\n'.join(head) + '\n' + ITEMS
