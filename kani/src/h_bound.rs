//! C09: the documented buffer bound (`Options::buffer_size_const`, `FORMATTED_SIZE*`) is sufficient:
//! writing any finite value into a buffer of exactly that many bytes does not panic and stays inside it.
//! (Kani reports every reachable panic - slice index, assert!, arithmetic overflow - as a failed obligation.)
use crate::vk::{any, assume, cover};
use crate::vcheck;
use core::num::{NonZeroI32, NonZeroUsize};
use lexical_write_float::{Options, ToLexicalWithOptions};

pub const CAP: usize = 192;

pub fn opts_for(min_digits: usize, max_digits: usize, neg_break: i32, pos_break: i32, trim: bool) -> Option<Options> {
    let b = Options::builder()
        .min_significant_digits(NonZeroUsize::new(min_digits))
        .max_significant_digits(NonZeroUsize::new(max_digits))
        .negative_exponent_break(NonZeroI32::new(neg_break))
        .positive_exponent_break(NonZeroI32::new(pos_break))
        .trim_floats(trim);
    if !b.is_valid() { return None; }
    Some(b.build_unchecked())
}

/// write `v` into a buffer of exactly the documented size; Err = contract clause broken (a panic inside the writer is
/// reported by the caller: Kani as a failed check, natively via catch_unwind).
pub fn write_in_bound_f64<const F: u128>(v: f64, o: &Options) -> Result<usize, &'static str> {
    let bound = o.buffer_size_const::<f64, F>();
    if bound > CAP { return Err("bound fits the harness buffer (harness limit)"); }
    let mut buf = [0xAAu8; CAP + 8];
    let n = v.to_lexical_with_options::<F>(&mut buf[..bound], o).len();
    if n > bound { return Err("written length <= documented bound"); }
    if buf[bound] != 0xAA || buf[CAP + 7] != 0xAA { return Err("frame: no byte beyond the caller's slice is written"); }
    Ok(n)
}
pub fn write_in_bound_f32<const F: u128>(v: f32, o: &Options) -> Result<usize, &'static str> {
    let bound = o.buffer_size_const::<f32, F>();
    if bound > CAP { return Err("bound fits the harness buffer (harness limit)"); }
    let mut buf = [0xAAu8; CAP + 8];
    let n = v.to_lexical_with_options::<F>(&mut buf[..bound], o).len();
    if n > bound { return Err("written length <= documented bound"); }
    if buf[bound] != 0xAA || buf[CAP + 7] != 0xAA { return Err("frame: no byte beyond the caller's slice is written"); }
    Ok(n)
}

crate::harnesses! {
    /// every finite f32, min_significant_digits 58..=60 (the bound is then the computed one, not FORMATTED_SIZE), breaks in -6..=-1 / 1..=9.
    /// @prop C09
    /// @feat default radix_format
    /// @bound f32 (all finite bit patterns); min_significant_digits in 58..=60; negative break in -6..=-1; positive break in 1..=9; decimal
    /// @fn lexical-write-float::options::Options::buffer_size_const
    /// @fn lexical-write-float::write::WriteFloat::write_float (check_buffer)
    /// @fn lexical-write-float::algorithm::{write_float_scientific, write_float_positive_exponent, write_float_negative_exponent}
    /// @fn lexical-write-float::shared::write_exponent
    /// @timeout 3000
    #[cfg_attr(kani, kani::unwind(70))]
    fn write_f32_exact_documented_buffer() {
        const F: u128 = lexical_util::format::STANDARD;
        let bits: u32 = any();
        let v = f32::from_bits(bits);
        assume(v.is_finite());
        let mind: usize = any(); assume(mind >= 58 && mind <= 60);
        let nb: i32 = any(); assume(nb >= -6 && nb <= -1);
        let pb: i32 = any(); assume(pb >= 1 && pb <= 9);
        let o = opts_for(mind, 0, nb, pb, false);
        vcheck!(o.is_some(), "these options are valid");
        if let Some(o) = o {
            let r = write_in_bound_f32::<F>(v, &o);
            vcheck!(r.is_ok(), "a buffer of buffer_size_const bytes suffices and nothing outside it is written");
            cover(r.is_ok());
        }
    }
}
