//! PF10 / C12: syntax flags. FORMAT is a const generic, so flag combinations are instantiated (a list, stated as the bound).
#![cfg(feature = "format")]
use crate::h_float_tok::cmp_tok;
use crate::vk::{any, assume, cover};
use crate::vcheck;
use lexical_parse_float::Options;
use lexical_util::format::NumberFormatBuilder as B;

macro_rules! formats {
    ($( $name:ident = $e:expr ; )*) => {
        $( pub const $name: u128 = $e; )*
        pub const ALL: &[(&str, u128)] = &[ $( (stringify!($name), $name) ),* ];
    };
}

formats! {
    F_REQ_INT = B::new().required_integer_digits(true).build_strict();
    F_REQ_FRAC = B::new().required_fraction_digits(true).build_strict();
    F_NOREQ_EXPD = B::new().required_exponent_digits(false).build_strict();
    F_NOREQ_MANT = B::new().required_mantissa_digits(false).build_strict();
    F_REQ_ALL = B::new().required_digits(true).build_strict();
    F_NO_EXP = B::new().no_exponent_notation(true).build_strict();
    F_REQ_EXP = B::new().required_exponent_notation(true).build_strict();
    F_NO_POS_EXP = B::new().no_positive_exponent_sign(true).build_strict();
    F_REQ_EXP_SIGN = B::new().required_exponent_sign(true).build_strict();
    F_NO_EXP_WO_FRAC = B::new().no_exponent_without_fraction(true).build_strict();
    F_NO_FLOAT_LZ = B::new().no_float_leading_zeros(true).build_strict();
    F_CS_EXP = B::new().case_sensitive_exponent(true).build_strict();
    F_REQ_EXP_NOREQ_MANT = B::new().required_exponent_notation(true).required_mantissa_digits(false).build_strict();
    F_REQ_EXP_REQ_SIGN = B::new().required_exponent_notation(true).required_exponent_sign(true).build_strict();
    F_NO_EXP_WO_FRAC_REQ_FRAC = B::new().no_exponent_without_fraction(true).required_fraction_digits(true).build_strict();
    F_NO_LZ_REQ_INT = B::new().no_float_leading_zeros(true).required_integer_digits(true).build_strict();
    F_NOREQ_ANY = B::new().required_digits(false).build_strict();
}

macro_rules! fmt_body {
    ($F:expr, $L:expr) => {{
        const F: u128 = $F;
        let bytes: [u8; $L] = any();
        let len: usize = any();
        assume(len <= $L);
        let mut i = 0;
        while i < $L {
            let c = bytes[i];
            assume(c == b'0' || c == b'1' || c == b'9' || c == b'+' || c == b'-' || c == b'e' || c == b'E' || c == b'.' || c == b'a');
            i += 1;
        }
        let opts = Options::new();
        let r = cmp_tok::<F>(&bytes[..len], &opts);
        vcheck!(r.is_ok(), "tokenizer == documented grammar for these flags (accept/reject, count, value)");
        cover(len == $L);
    }};
}

crate::harnesses! {
    /// parse_number under syntax flags F_REQ_INT == documented grammar; strings len <= 5 over {0 1 9 + - e E . a}.
    /// @prop C12 C10~
    /// @tier thorough
    /// @feat format radix_format
    /// @bound one of 17 instantiated flag combinations; input length <= 5 over {0 1 9 + - e E . a}
    /// @fn lexical-parse-float::parse::parse_number (flag-dependent branches)
    /// @timeout 1500
    #[cfg_attr(kani, kani::unwind(8))]
    fn tokfmt_req_int() { fmt_body!(F_REQ_INT, 5) }

    /// parse_number under syntax flags F_REQ_FRAC == documented grammar; strings len <= 5 over {0 1 9 + - e E . a}.
    /// @prop C12 C10~
    /// @feat format radix_format
    /// @bound one of 17 instantiated flag combinations; input length <= 5 over {0 1 9 + - e E . a}
    /// @fn lexical-parse-float::parse::parse_number (flag-dependent branches)
    /// @timeout 1500
    #[cfg_attr(kani, kani::unwind(8))]
    fn tokfmt_req_frac() { fmt_body!(F_REQ_FRAC, 5) }

    /// parse_number under syntax flags F_NOREQ_EXPD == documented grammar; strings len <= 5 over {0 1 9 + - e E . a}.
    /// @prop C12 C10~
    /// @tier thorough
    /// @feat format radix_format
    /// @bound one of 17 instantiated flag combinations; input length <= 5 over {0 1 9 + - e E . a}
    /// @fn lexical-parse-float::parse::parse_number (flag-dependent branches)
    /// @timeout 1500
    #[cfg_attr(kani, kani::unwind(8))]
    fn tokfmt_noreq_expd() { fmt_body!(F_NOREQ_EXPD, 5) }

    /// parse_number under syntax flags F_NOREQ_MANT == documented grammar; strings len <= 5 over {0 1 9 + - e E . a}.
    /// @prop C12 C10~
    /// @tier thorough
    /// @feat format radix_format
    /// @bound one of 17 instantiated flag combinations; input length <= 5 over {0 1 9 + - e E . a}
    /// @fn lexical-parse-float::parse::parse_number (flag-dependent branches)
    /// @timeout 1500
    #[cfg_attr(kani, kani::unwind(8))]
    fn tokfmt_noreq_mant() { fmt_body!(F_NOREQ_MANT, 5) }

    /// parse_number under syntax flags F_REQ_ALL == documented grammar; strings len <= 5 over {0 1 9 + - e E . a}.
    /// @prop C12 C10
    /// @feat format radix_format
    /// @bound one of 17 instantiated flag combinations; input length <= 5 over {0 1 9 + - e E . a}
    /// @fn lexical-parse-float::parse::parse_number (flag-dependent branches)
    /// @timeout 1500
    #[cfg_attr(kani, kani::unwind(8))]
    fn tokfmt_req_all() { fmt_body!(F_REQ_ALL, 5) }

    /// parse_number under syntax flags F_NO_EXP == documented grammar; strings len <= 5 over {0 1 9 + - e E . a}.
    /// @prop C12 C10~
    /// @feat format radix_format
    /// @bound one of 17 instantiated flag combinations; input length <= 5 over {0 1 9 + - e E . a}
    /// @fn lexical-parse-float::parse::parse_number (flag-dependent branches)
    /// @timeout 1500
    #[cfg_attr(kani, kani::unwind(8))]
    fn tokfmt_no_exp() { fmt_body!(F_NO_EXP, 5) }

    /// parse_number under syntax flags F_REQ_EXP == documented grammar; strings len <= 5 over {0 1 9 + - e E . a}.
    /// @prop C12 C10~
    /// @feat format radix_format
    /// @bound one of 17 instantiated flag combinations; input length <= 5 over {0 1 9 + - e E . a}
    /// @fn lexical-parse-float::parse::parse_number (flag-dependent branches)
    /// @timeout 1500
    #[cfg_attr(kani, kani::unwind(8))]
    fn tokfmt_req_exp() { fmt_body!(F_REQ_EXP, 5) }

    /// parse_number under syntax flags F_NO_POS_EXP == documented grammar; strings len <= 5 over {0 1 9 + - e E . a}.
    /// @prop C12 C10~
    /// @tier thorough
    /// @feat format radix_format
    /// @bound one of 17 instantiated flag combinations; input length <= 5 over {0 1 9 + - e E . a}
    /// @fn lexical-parse-float::parse::parse_number (flag-dependent branches)
    /// @timeout 1500
    #[cfg_attr(kani, kani::unwind(8))]
    fn tokfmt_no_pos_exp() { fmt_body!(F_NO_POS_EXP, 5) }

    /// parse_number under syntax flags F_REQ_EXP_SIGN == documented grammar; strings len <= 5 over {0 1 9 + - e E . a}.
    /// @prop C12 C10~
    /// @feat format radix_format
    /// @bound one of 17 instantiated flag combinations; input length <= 5 over {0 1 9 + - e E . a}
    /// @fn lexical-parse-float::parse::parse_number (flag-dependent branches)
    /// @timeout 1500
    #[cfg_attr(kani, kani::unwind(8))]
    fn tokfmt_req_exp_sign() { fmt_body!(F_REQ_EXP_SIGN, 5) }

    /// parse_number under syntax flags F_NO_EXP_WO_FRAC == documented grammar; strings len <= 5 over {0 1 9 + - e E . a}.
    /// @prop C12 C10~
    /// @feat format radix_format
    /// @bound one of 17 instantiated flag combinations; input length <= 5 over {0 1 9 + - e E . a}
    /// @fn lexical-parse-float::parse::parse_number (flag-dependent branches)
    /// @timeout 1500
    #[cfg_attr(kani, kani::unwind(8))]
    fn tokfmt_no_exp_wo_frac() { fmt_body!(F_NO_EXP_WO_FRAC, 5) }

    /// parse_number under syntax flags F_NO_FLOAT_LZ == documented grammar; strings len <= 5 over {0 1 9 + - e E . a}.
    /// @prop C12 C10~
    /// @feat format radix_format
    /// @bound one of 17 instantiated flag combinations; input length <= 5 over {0 1 9 + - e E . a}
    /// @fn lexical-parse-float::parse::parse_number (flag-dependent branches)
    /// @timeout 1500
    #[cfg_attr(kani, kani::unwind(8))]
    fn tokfmt_no_float_lz() { fmt_body!(F_NO_FLOAT_LZ, 5) }

    /// parse_number under syntax flags F_CS_EXP == documented grammar; strings len <= 5 over {0 1 9 + - e E . a}.
    /// @prop C12 C10~
    /// @feat format radix_format
    /// @bound one of 17 instantiated flag combinations; input length <= 5 over {0 1 9 + - e E . a}
    /// @fn lexical-parse-float::parse::parse_number (flag-dependent branches)
    /// @timeout 1500
    #[cfg_attr(kani, kani::unwind(8))]
    fn tokfmt_cs_exp() { fmt_body!(F_CS_EXP, 5) }

    /// parse_number under syntax flags F_REQ_EXP_NOREQ_MANT == documented grammar; strings len <= 5 over {0 1 9 + - e E . a}.
    /// @prop C12 C10~
    /// @tier thorough
    /// @feat format radix_format
    /// @bound one of 17 instantiated flag combinations; input length <= 5 over {0 1 9 + - e E . a}
    /// @fn lexical-parse-float::parse::parse_number (flag-dependent branches)
    /// @timeout 1500
    #[cfg_attr(kani, kani::unwind(8))]
    fn tokfmt_req_exp_noreq_mant() { fmt_body!(F_REQ_EXP_NOREQ_MANT, 5) }

    /// parse_number under syntax flags F_REQ_EXP_REQ_SIGN == documented grammar; strings len <= 5 over {0 1 9 + - e E . a}.
    /// @prop C12 C10~
    /// @tier thorough
    /// @feat format radix_format
    /// @bound one of 17 instantiated flag combinations; input length <= 5 over {0 1 9 + - e E . a}
    /// @fn lexical-parse-float::parse::parse_number (flag-dependent branches)
    /// @timeout 1500
    #[cfg_attr(kani, kani::unwind(8))]
    fn tokfmt_req_exp_req_sign() { fmt_body!(F_REQ_EXP_REQ_SIGN, 5) }

    /// parse_number under syntax flags F_NO_EXP_WO_FRAC_REQ_FRAC == documented grammar; strings len <= 5 over {0 1 9 + - e E . a}.
    /// @prop C12 C10~
    /// @tier thorough
    /// @feat format radix_format
    /// @bound one of 17 instantiated flag combinations; input length <= 5 over {0 1 9 + - e E . a}
    /// @fn lexical-parse-float::parse::parse_number (flag-dependent branches)
    /// @timeout 1500
    #[cfg_attr(kani, kani::unwind(8))]
    fn tokfmt_no_exp_wo_frac_req_frac() { fmt_body!(F_NO_EXP_WO_FRAC_REQ_FRAC, 5) }

    /// parse_number under syntax flags F_NO_LZ_REQ_INT == documented grammar; strings len <= 5 over {0 1 9 + - e E . a}.
    /// @prop C12 C10~
    /// @tier thorough
    /// @feat format radix_format
    /// @bound one of 17 instantiated flag combinations; input length <= 5 over {0 1 9 + - e E . a}
    /// @fn lexical-parse-float::parse::parse_number (flag-dependent branches)
    /// @timeout 1500
    #[cfg_attr(kani, kani::unwind(8))]
    fn tokfmt_no_lz_req_int() { fmt_body!(F_NO_LZ_REQ_INT, 5) }

    /// parse_number under syntax flags F_NOREQ_ANY == documented grammar; strings len <= 5 over {0 1 9 + - e E . a}.
    /// @prop C12 C10
    /// @feat format radix_format
    /// @bound one of 17 instantiated flag combinations; input length <= 5 over {0 1 9 + - e E . a}
    /// @fn lexical-parse-float::parse::parse_number (flag-dependent branches)
    /// @timeout 1500
    #[cfg_attr(kani, kani::unwind(8))]
    fn tokfmt_noreq_any() { fmt_body!(F_NOREQ_ANY, 5) }

}
