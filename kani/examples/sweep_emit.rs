//! Developer aid: native sweep of cmp_emit to debug the oracle.
use lexverif::h_float_emit::cmp_emit;
fn main() {
    let (mut n, mut bad) = (0u64, 0u64);
    let mants: Vec<u64> = (1..2000u64).chain([12345, 99999, 99995, 9995, 12355, 12365, 45, 95, 949, 951, 999, 5, 15, 25]).filter(|m| m % 10 != 0).collect();
    for &mant in &mants {
        for sci in -6..=6i32 {
            for max in 0..=7usize { for min in 0..=7usize { for truncate in [false, true] { for trim in [false, true] {
                for kind in 0..3u8 {
                    if kind == 1 && sci < 0 { continue; }
                    if kind == 2 && sci >= 0 { continue; }
                    if mant > 300 && (min > 3 || max > 5) { continue; }
                    if max != 0 && min != 0 && min > max { continue; }
                    n += 1;
                    if let Err(e) = cmp_emit(kind, mant, sci, if max == 0 { None } else { Some(max) }, if min == 0 { None } else { Some(min) }, truncate, trim) {
                        bad += 1;
                        if bad < 25 { println!("kind={kind} mant={mant} sci={sci} max={max} min={min} trunc={truncate} trim={trim}: {e}"); }
                    }
                }
            }}}}
        }
    }
    println!("{n} cases, {bad} disagreements");
}
