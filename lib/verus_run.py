"""Run Verus on a generated file and classify the outcome per obligation."""
import json
import os
import re
import subprocess
import time

VERUS = os.environ.get("VERUS_BIN", "verus")

# messages that mean "this proof obligation was refuted / not proved"
FAIL_PATTERNS = [
    r"postcondition not satisfied", r"precondition not satisfied", r"assertion failed",
    r"possible arithmetic underflow/overflow", r"possible division by zero",
    r"invariant not satisfied", r"loop invariant not", r"decreases not satisfied",
    r"possible bit shift underflow/overflow", r"recommendation not met",
    r"index out of bounds", r"could not prove termination", r"assertion failed: by\(compute",
    r"simplifies to false", r"failed to simplify down to true", r"unreachable",
    r"possible truncation", r"cannot show invariant holds", r"not satisfied before loop",
    r"not satisfied at end of loop", r"might not be allowed", r"expression simplifies to false",
    r"assert_by_compute", r"compute_only", r"precondition not met", r"index in bounds", r"in bounds for this access", r"evaluates to false", r"expression simplifies to",
]
UNDECIDED_PATTERNS = [r"[Rr]esource limit", r"rlimit", r"timed? ?out", r"solver .* (crashed|unknown)"]


def run(file, rlimit=None, threads=4, extra=None, timeout=1800):
    cmd = [VERUS, file, "--output-json", "--time", "--multiple-errors", "20", "--num-threads", str(threads)]
    if rlimit:
        cmd += ["--rlimit", str(rlimit)]
    if extra:
        cmd += extra
    t0 = time.time()
    try:
        p = subprocess.run(cmd, stdout=subprocess.PIPE, stderr=subprocess.PIPE, text=True,
                           cwd=os.path.dirname(file), timeout=timeout)
        out, err, rc = p.stdout, p.stderr, p.returncode
    except subprocess.TimeoutExpired as e:
        return dict(status="undecided", reason="verus timeout %ds" % timeout, verified=0, errors=0,
                    failures=[], wall_s=time.time() - t0, smt_ms=0, cmd=' '.join(cmd), raw="")
    wall = time.time() - t0
    res = dict(cmd=' '.join(cmd), wall_s=wall, raw=err[-20000:], verified=0, errors=0, failures=[], smt_ms=0)
    js = None
    try:
        js = json.loads(out)
    except Exception:
        m = re.search(r'\{.*\}', out, re.S)
        if m:
            try:
                js = json.loads(m.group(0))
            except Exception:
                js = None
    vr = (js or {}).get("verification-results") or {}
    res["verified"] = vr.get("verified", 0)
    res["errors"] = vr.get("errors", 0)
    try:
        res["smt_ms"] = js["times-ms"]["smt"]["total"]
    except Exception:
        pass
    # parse diagnostics
    diags = []
    cur = None
    for ln in err.split('\n'):
        m = re.match(r'(error|warning|note)(\[\w+\])?: (.*)$', ln)
        if m:
            cur = dict(level=m.group(1), msg=m.group(3), line=None, lines=[], text=[])
            diags.append(cur)
            continue
        m = re.match(r'\s+--> (.*?):(\d+):(\d+)', ln)
        if m and cur is not None and cur["line"] is None:
            cur["line"] = int(m.group(2))
            continue
        m = re.match(r'\s*(\d+) \| ?(.*)$', ln)
        if m and cur is not None:
            cur["lines"].append(int(m.group(1)))
            cur["text"].append(m.group(2))
    errors = [d for d in diags if d["level"] == "error" and not d["msg"].startswith("aborting due to")]
    fails, undec, other = [], [], []
    res["aborted_early"] = bool(vr.get("encountered-vir-error"))
    if (not vr or vr.get("encountered-vir-error")) and not any(
            re.search(p, d["msg"]) for d in errors for p in (r"simplifies to false", r"failed to simplify down to true", r"evaluates to false", r"expression simplifies to")):
        res["status"] = "tool-error"
        res["reason"] = "; ".join(d["msg"] for d in errors[:5]) or "verus produced no verification result (rc=%s)" % rc
        return res
    for d in errors:
        if any(re.search(p, d["msg"]) for p in UNDECIDED_PATTERNS):
            undec.append(d)
        elif any(re.search(p, d["msg"]) for p in FAIL_PATTERNS):
            fails.append(d)
        else:
            other.append(d)
    res["failures"] = fails
    res["undecided"] = undec
    if other and not fails and not undec and not vr.get("success"):
        # rustc / mode / unsupported-construct errors
        res["status"] = "tool-error"
        res["reason"] = "; ".join(d["msg"] for d in other[:5])
        return res
    if fails:
        res["status"] = "failed"
    elif undec:
        res["status"] = "undecided"
        res["reason"] = "; ".join(d["msg"] for d in undec[:3])
    elif vr.get("success") and res["errors"] == 0:
        res["status"] = "ok"
    else:
        res["status"] = "tool-error"
        res["reason"] = "unclassified verus outcome: " + "; ".join(d["msg"] for d in other[:5])
    return res
