//! Developer aid: all strings up to a length over a small alphabet, power-of-two radix parser vs exact oracle.
use lexverif::h_float_bin::*;
use lexverif::h_float_wbin::mixed_format;
fn run<const F: u128>(name: &str, alpha: &[u8], maxlen: usize, radix: u32, base: u32, eradix: u32) {
    std::panic::set_hook(Box::new(|_| {}));
    let (mut n, mut bad) = (0u64, 0u64);
    for len in 1..=maxlen {
        let mut idx = vec![0usize; len];
        loop {
            let s: Vec<u8> = idx.iter().map(|&i| alpha[i]).collect();
            n += 1;
            let s2 = s.clone();
            let r = std::panic::catch_unwind(move || (cmp_parse_pow2::<F>(&s2, radix, base, eradix), cmp_parse_pow2_f32::<F>(&s2, radix, base, eradix)));
            let e = match r { Ok((Ok(()), Ok(()))) => None, Ok((Err(e), _)) => Some(e), Ok((_, Err(e))) => Some(e), Err(_) => Some("PANIC") };
            if let Some(e) = e { bad += 1; if bad < 8 { println!("  {name} {:?}: {}", String::from_utf8_lossy(&s), e); } }
            let mut k = 0;
            while k < len { idx[k] += 1; if idx[k] < alpha.len() { break; } idx[k] = 0; k += 1; }
            if k == len { break; }
        }
    }
    println!("{name}: {n} strings, {bad} disagreements");
}
fn main() {
    run::<{ mixed_format(16, 2) }>("hex16/2", b"01F8.^-9", 7, 16, 2, 10);
    run::<{ mixed_format(16, 4) }>("hex16/4", b"01F8.^-9", 7, 16, 4, 10);
    run::<{ mixed_format(8, 2) }>("oct8/2", b"017.^-9", 7, 8, 2, 10);
    run::<{ lexverif::radix_format(32) }>("radix32", b"01VG.^-", 7, 32, 32, 32);
    run::<{ lexverif::radix_format(16) }>("radix16", b"01F8.^-", 7, 16, 16, 16);
    run::<{ lexverif::radix_format(8) }>("radix8", b"0174.^-", 7, 8, 8, 8);
    run::<{ lexverif::radix_format(4) }>("radix4", b"0123.^-", 7, 4, 4, 4);
    run::<{ lexverif::radix_format(2) }>("radix2", b"01.^-", 9, 2, 2, 2);
}
