//! Developer aid / witness search for C06: exact evaluation of power-of-two radix float output.
use lexverif::h_float_wbin::*;
fn main() {
    std::panic::set_hook(Box::new(|_| {}));
    let mut x = 0x9E3779B97F4A7C15u64;
    macro_rules! go { ($r:expr, $b:expr, $er:expr, $F:expr) => {{
        const F: u128 = $F;
        for notation in 0..3u8 {
            let (mut n, mut bad) = (0u64, 0u64); let mut first = String::new();
            for it in 0..300000u64 {
                x ^= x << 13; x ^= x >> 7; x ^= x << 17;
                let v32 = match it { 0 => 0.0, 1 => -0.0, 2 => f32::from_bits(1), 3 => f32::MAX, 4 => f32::MIN_POSITIVE, 5 => 1.0, _ => if it % 8 == 0 { f32::from_bits((x as u32) & 0x807FFFFF) } else if it % 8 == 1 { ((x % 4096) as f32) / 64.0 } else { f32::from_bits(x as u32) } };
                let v64 = match it { 0 => 0.0, 1 => -0.0, 2 => f64::from_bits(1), 3 => f64::MAX, 4 => f64::MIN_POSITIVE, 5 => 1.0, _ => if it % 8 == 0 { f64::from_bits(x & 0x800FFFFFFFFFFFFF) } else if it % 8 == 1 { ((x % 4096) as f64) / 64.0 } else { f64::from_bits(x) } };
                if v32.is_finite() { n += 1; if let Err(e) = std::panic::catch_unwind(|| rt_wbin_f32::<F>(v32, notation)).unwrap_or(Err("PANIC in the parser")) { bad += 1; if first.is_empty() { first = format!("f32 {:e} bits {:#x}: {}", v32, v32.to_bits(), e); } } if let Err(e) = cmp_wbin_f32::<F>(v32, $r, $b, $er, notation) { bad += 1; if first.is_empty() { first = format!("f32 {:e} bits {:#x}: {}", v32, v32.to_bits(), e); } } }
                if v64.is_finite() { n += 1; if let Err(e) = std::panic::catch_unwind(|| rt_wbin_f64::<F>(v64, notation)).unwrap_or(Err("PANIC in the parser")) { bad += 1; if first.is_empty() { first = format!("f64 {:e} bits {:#x}: {}", v64, v64.to_bits(), e); } } if let Err(e) = cmp_wbin_f64::<F>(v64, $r, $b, $er, notation) { bad += 1; if first.is_empty() { first = format!("f64 {:e} bits {:#x}: {}", v64, v64.to_bits(), e); } } }
            }
            println!("radix {} base {} notation {}: {} writes, {} mismatches {}", $r, $b, notation, n, bad, first);
        }
    }}; }
    // max_significant_digits (C14)
    macro_rules! gomax { ($r:expr, $F:expr) => {{
        const F: u128 = $F;
        for max in 1..=4usize { for truncate in [false, true] {
            let (mut n, mut bad) = (0u64, 0u64); let mut first = String::new();
            for it in 0..100000u64 {
                x ^= x << 13; x ^= x >> 7; x ^= x << 17;
                let v32 = match it { 0 => 0.0, 1 => 7.5, 2 => 255.0, 3 => 1.75, 4 => 1.0, _ => if it % 4 == 0 { ((x % 4096) as f32) / 16.0 } else { f32::from_bits(x as u32) } };
                if !v32.is_finite() { continue; }
                n += 1;
                let r = std::panic::catch_unwind(|| cmp_wbin_maxdigits_f32::<F>(v32, $r, $r, $r, max, truncate)).unwrap_or(Err("PANIC in the writer"));
                if let Err(e) = r { bad += 1; if first.is_empty() { first = format!("f32 {:e} bits {:#x}: {}", v32, v32.to_bits(), e); } }
            }
            println!("maxdigits radix {} max {} truncate {}: {} writes, {} mismatches {}", $r, max, truncate, n, bad, first);
        } }
    }}; }
    gomax!(2, lexverif::radix_format(2)); gomax!(4, lexverif::radix_format(4)); gomax!(16, lexverif::radix_format(16));
    go!(2, 2, 2, lexverif::radix_format(2)); go!(4, 4, 4, lexverif::radix_format(4)); go!(8, 8, 8, lexverif::radix_format(8));
    go!(16, 16, 16, lexverif::radix_format(16)); go!(32, 32, 32, lexverif::radix_format(32));
    go!(4, 2, 10, mixed_format(4, 2)); go!(8, 2, 10, mixed_format(8, 2)); go!(16, 2, 10, mixed_format(16, 2)); go!(32, 2, 10, mixed_format(32, 2)); go!(16, 4, 10, mixed_format(16, 4));
}
