#!/usr/bin/env python3
"""Regenerate MANIFEST.json from lib/props.py (claimed properties) + the not_applicable table below."""
import json
import os
import subprocess
import sys
sys.path.insert(0, os.path.dirname(os.path.abspath(__file__)))
import props

NOT_APPLICABLE = {
    "C07": "generic-radix float writer is a data-dependent loop of native f64 multiply/floor steps (up to ~1100 "
           "iterations); Verus has no floating-point theory and Kani cannot unroll it; no contract within reach "
           "expresses '< 2048 ulp'",
}
PENDING = "contract units for this property are not built yet (work in progress); not claimed"

TECH = {
    "C01": "Verus closed-fact obligations per table row/limit + Kani full-domain kernel contracts",
    "C02": "Verus closed-fact obligations per cache row / exponent / threshold",
    "C03": "Verus function contracts on extracted kernels + row obligations + Kani full-domain contracts",
    "C04": "Kani contracts: full-domain kernels, bounded parser-vs-reference-scanner",
    "C05": "Verus closed-fact obligations per radix row + Kani function contract on binary()/slow_binary() and string-level contracts against an exact evaluator",
    "C06": "Kani full-domain (every finite f32) contracts on the real power-of-two writers against an exact evaluator; write/parse round trip",
    "C08": "Kani full-domain integer round trips + composition of writer/parser contracts through the reference grammar",
    "C13": "Kani relational contracts (separator format vs separator-free format) + position grammar per flag combination",
    "C14": "Kani bounded contracts on the emit functions: output re-read by the reference tokenizer",
    "C17": "Kani full-domain (8/16-bit) facade equality + ASCII postconditions of the writer contracts",
    "C09": "Verus in-bounds + frame obligations on extracted writers; Kani pointer checks on the real unsafe code",
    "C12": "Kani bounded contracts: tokenizer vs reference grammar per instantiated flag set",
    "C15": "Kani bounded contracts: special matcher vs reference; full-domain kernel contract",
    "C19": "Kani relational contract on the Lemire kernel",
    "C10": "Kani: memory-safety/panic/unwinding checks of every parser harness",
    "C11": "Kani relational harnesses",
    "C16": "same contracts discharged per feature set",
    "C18": "Kani loop-free contracts over all 2^128 formats",
}


def main():
    here = os.path.dirname(os.path.dirname(os.path.abspath(__file__)))
    allp = [json.loads(l)["id"] for l in open(os.path.join(here, "properties.jsonl"))]
    hooks = subprocess.run(["git", "-C", "/repo", "log", "--format=%H %s"], stdout=subprocess.PIPE, text=True).stdout
    hook_commits = [l.split()[0] for l in hooks.split("\n") if "verif hook" in l]
    checks = []
    for pid in allp:
        if pid not in props.PROPS:
            continue
        P = props.PROPS[pid]
        checks.append(dict(
            property_id=pid,
            quick_cmd="./check %s --tier quick" % pid,
            thorough_cmd="./check %s --tier thorough" % pid,
            evidence_file="/verif/evidence/%s.json" % pid,
            replay_cmd_template="./check --replay {path}",
            engine="verus+kani",
            level_claimed=dict(category=P.get("category", "proof"), text=P["level_text"], design_ref="DESIGN.md section 4 (%s)" % pid),
            level_note="Trusted: " + "; ".join(props.TRUSTED_BASE) + ". Assumed: " + ("; ".join(P.get("assumptions", [])) or "nothing further")
                       + ". Bounded stand-ins are listed separately in the evidence file and never counted as discharged.",
            technique=TECH.get(pid, "contract-based deductive verification (Verus / Kani)"),
        ))
    na = []
    for pid in allp:
        if pid in props.PROPS:
            continue
        na.append(dict(property_id=pid, reason=NOT_APPLICABLE.get(pid, PENDING)))
    m = dict(
        version=1,
        setup_cmd="./setup.sh",
        hooks=dict(guard="lexical_verif",
                   enable="RUSTFLAGS='--cfg lexical_verif' (set by lib/kunit.py for every Kani / native replay build)",
                   baseline_off_cmd="cd /repo && cargo test --workspace --no-fail-fast --offline",
                   source_commits=hook_commits, add_only=True),
        engines=[dict(name="verus", path="/verif/lib/vunit.py", serves_properties=sorted(props.PROPS),
                      kind_free_text="Verus 0.2026.09.13 on functions extracted from rustc -Zunpretty=expanded output of /repo, plus closed-fact row obligations"),
                 dict(name="kani", path="/verif/kani", serves_properties=sorted(props.PROPS),
                      kind_free_text="Kani 0.68 contract harnesses over the real crates (path dependencies on /repo)")],
        checks=checks,
        not_applicable=na,
        notes="exit 0 = all obligations discharged; exit 1 = VIOLATION line; exit 2 = tool limit/undecided (never an alarm); a Kani harness timeout is printed as UNDECIDED (not explored) and does not change the exit code",
    )
    json.dump(m, open(os.path.join(here, "MANIFEST.json"), "w"), indent=1)
    print("claimed:", [c["property_id"] for c in checks])


if __name__ == "__main__":
    main()
