//! PF10 / C12: syntax flags. FORMAT is a const generic, so flag combinations are instantiated (a list, stated as the bound).
#![cfg(feature = "format")]
use crate::h_float_tok::cmp_tok;
use crate::vk::{any, assume, cover};
use crate::vcheck;
use lexical_parse_float::Options;
use lexical_util::format::NumberFormatBuilder as B;

macro_rules! formats {
    ($( $name:ident = $e:expr ; )*) => {
        $( pub const $name: u128 = $e; )*
        pub const ALL: &[(&str, u128)] = &[ $( (stringify!($name), $name) ),* ];
    };
}

formats! {
    F_REQ_INT = B::new().required_integer_digits(true).build_strict();
    F_REQ_FRAC = B::new().required_fraction_digits(true).build_strict();
    F_NOREQ_EXPD = B::new().required_exponent_digits(false).build_strict();
    F_NOREQ_MANT = B::new().required_mantissa_digits(false).build_strict();
    F_REQ_ALL = B::new().required_digits(true).build_strict();
    F_NO_EXP = B::new().no_exponent_notation(true).build_strict();
    F_REQ_EXP = B::new().required_exponent_notation(true).build_strict();
    F_NO_POS_EXP = B::new().no_positive_exponent_sign(true).build_strict();
    F_REQ_EXP_SIGN = B::new().required_exponent_sign(true).build_strict();
    F_NO_EXP_WO_FRAC = B::new().no_exponent_without_fraction(true).build_strict();
    F_NO_FLOAT_LZ = B::new().no_float_leading_zeros(true).build_strict();
    F_CS_EXP = B::new().case_sensitive_exponent(true).build_strict();
    F_REQ_EXP_NOREQ_MANT = B::new().required_exponent_notation(true).required_mantissa_digits(false).build_strict();
    F_REQ_EXP_REQ_SIGN = B::new().required_exponent_notation(true).required_exponent_sign(true).build_strict();
    F_NO_EXP_WO_FRAC_REQ_FRAC = B::new().no_exponent_without_fraction(true).required_fraction_digits(true).build_strict();
    F_NO_LZ_REQ_INT = B::new().no_float_leading_zeros(true).required_integer_digits(true).build_strict();
    F_NOREQ_ANY = B::new().required_digits(false).build_strict();
}

macro_rules! fmt_body {
    ($F:expr, $L:expr) => {{
        const F: u128 = $F;
        let bytes: [u8; $L] = any();
        let len: usize = any();
        assume(len <= $L);
        let mut i = 0;
        while i < $L {
            let c = bytes[i];
            assume(c == b'0' || c == b'1' || c == b'9' || c == b'+' || c == b'-' || c == b'e' || c == b'E' || c == b'.' || c == b'a');
            i += 1;
        }
        let opts = Options::new();
        let r = cmp_tok::<F>(&bytes[..len], &opts);
        vcheck!(r.is_ok(), "tokenizer == documented grammar for these flags (accept/reject, count, value)");
        cover(len == $L);
    }};
}

macro_rules! fmt_harnesses {
    ($( $h:ident => $F:ident, $tier:literal ; )*) => {
        crate::harnesses! { $(
            /// parse_number under one syntax-flag combination == reference grammar; strings len <= 6 over {0 1 9 + - e E . a}.
            /// @prop C12 C10
            /// @feat format radix_format
            /// @bound format list (17 instantiated flag combinations); input length <= 6 over {0 1 9 + - e E . a}
            /// @fn lexical-parse-float::parse::parse_number (flag-dependent branches)
            /// @timeout 1500
            #[cfg_attr(kani, kani::unwind(9))]
            fn $h() { fmt_body!($F, 6) }
        )* }
    };
}

fmt_harnesses! {
    tokfmt_req_int => F_REQ_INT, "quick";
    tokfmt_req_frac => F_REQ_FRAC, "quick";
    tokfmt_noreq_expd => F_NOREQ_EXPD, "quick";
    tokfmt_noreq_mant => F_NOREQ_MANT, "quick";
    tokfmt_req_all => F_REQ_ALL, "quick";
    tokfmt_no_exp => F_NO_EXP, "quick";
    tokfmt_req_exp => F_REQ_EXP, "quick";
    tokfmt_no_pos_exp => F_NO_POS_EXP, "quick";
    tokfmt_req_exp_sign => F_REQ_EXP_SIGN, "quick";
    tokfmt_no_exp_wo_frac => F_NO_EXP_WO_FRAC, "quick";
    tokfmt_no_float_lz => F_NO_FLOAT_LZ, "quick";
    tokfmt_cs_exp => F_CS_EXP, "quick";
    tokfmt_req_exp_noreq_mant => F_REQ_EXP_NOREQ_MANT, "quick";
    tokfmt_req_exp_req_sign => F_REQ_EXP_REQ_SIGN, "quick";
    tokfmt_no_exp_wo_frac_req_frac => F_NO_EXP_WO_FRAC_REQ_FRAC, "quick";
    tokfmt_no_lz_req_int => F_NO_LZ_REQ_INT, "quick";
    tokfmt_noreq_any => F_NOREQ_ANY, "quick";
}
