use lexical_parse_float::lemire::compute_float;
fn main() {
    for (q, w) in [(-39i64, 10114952411948569017u64), (-57, 11754943255890205170u64)] {
        let a = compute_float::<f32>(q, w, false);
        println!("f32 q={q} w={w:#x} -> mant={:#x} exp={} (exp-INVALID={})", a.mant, a.exp, a.exp - (i16::MIN as i32));
    }
}
