//! Developer aid (not a check): native sweep of cmp_tok over the instantiated format list.
use lexical_parse_float::Options;
use lexverif::h_float_fmt as hf;
fn sweep<const F: u128>(name: &str, maxlen: usize) {
    let alpha: &[u8] = b"019+-eE.a";
    let opts = Options::new();
    let (mut n, mut bad) = (0u64, 0u64);
    for len in 0..=maxlen {
        let mut idx = vec![0usize; len];
        loop {
            let s: Vec<u8> = idx.iter().map(|&i| alpha[i]).collect();
            n += 1;
            if let Err(e) = lexverif::h_float_tok::cmp_tok::<F>(&s, &opts) {
                bad += 1;
                if bad < 6 { println!("  {name} {:?}: {}", String::from_utf8_lossy(&s), e); }
            }
            let mut k = 0;
            while k < len { idx[k] += 1; if idx[k] < alpha.len() { break; } idx[k] = 0; k += 1; }
            if k == len { break; }
        }
    }
    println!("{name}: {n} strings, {bad} disagreements");
}
fn main() {
    let m: usize = std::env::args().nth(1).map(|s| s.parse().unwrap()).unwrap_or(6);
    sweep::<{ hf::F_REQ_INT }>("F_REQ_INT", m); sweep::<{ hf::F_REQ_FRAC }>("F_REQ_FRAC", m);
    sweep::<{ hf::F_NOREQ_EXPD }>("F_NOREQ_EXPD", m); sweep::<{ hf::F_NOREQ_MANT }>("F_NOREQ_MANT", m);
    sweep::<{ hf::F_REQ_ALL }>("F_REQ_ALL", m); sweep::<{ hf::F_NO_EXP }>("F_NO_EXP", m);
    sweep::<{ hf::F_REQ_EXP }>("F_REQ_EXP", m); sweep::<{ hf::F_NO_POS_EXP }>("F_NO_POS_EXP", m);
    sweep::<{ hf::F_REQ_EXP_SIGN }>("F_REQ_EXP_SIGN", m); sweep::<{ hf::F_NO_EXP_WO_FRAC }>("F_NO_EXP_WO_FRAC", m);
    sweep::<{ hf::F_NO_FLOAT_LZ }>("F_NO_FLOAT_LZ", m); sweep::<{ hf::F_CS_EXP }>("F_CS_EXP", m);
    sweep::<{ hf::F_REQ_EXP_NOREQ_MANT }>("F_REQ_EXP_NOREQ_MANT", m); sweep::<{ hf::F_REQ_EXP_REQ_SIGN }>("F_REQ_EXP_REQ_SIGN", m);
    sweep::<{ hf::F_NO_EXP_WO_FRAC_REQ_FRAC }>("F_NO_EXP_WO_FRAC_REQ_FRAC", m); sweep::<{ hf::F_NO_LZ_REQ_INT }>("F_NO_LZ_REQ_INT", m);
    sweep::<{ hf::F_NOREQ_ANY }>("F_NOREQ_ANY", m);
}
