#!/usr/bin/env python3
"""check <Cxx> [--tier quick|thorough|deep]   |   check --replay <replay.json>

exit 0: every obligation generated from /repo's current tree was discharged
exit 1: an obligation failed  (VIOLATION line printed, replay file written)
exit 2: tool limit / lost anchor / timeout / undecided -- never an alarm
"""
import json
import os
import subprocess
import sys
import time

sys.path.insert(0, os.path.dirname(os.path.abspath(__file__)))
import core
from core import WorkDir, run_parallel, finish, log, out
import kunit
import props


def do_replay(path):
    doc = json.load(open(path))
    print("property:", doc.get("property_id"))
    print("failed obligation:", doc.get("obligation"))
    cex = doc.get("counterexample")
    if cex and cex.get("concrete_vals") is not None:
        hs = kunit.load_harnesses()
        h = hs.get(cex["harness"])
        featset = next((k for k, v in kunit.FEATURE_SETS.items() if v == cex.get("features", "")), "default")
        if h is None:
            print("harness no longer exists")
            return 2
        st, msg = kunit.native_replay(h, featset, cex["concrete_vals"])
        print("native replay on the real code:", st, msg)
        return 1 if st == "confirmed" else 0
    print("no failing input recorded for this obligation (no-failing-input-found); verifier output follows")
    print(doc.get("verifier_output", ""))
    return 1


def main():
    args = sys.argv[1:]
    if args and args[0] == "--replay":
        sys.exit(do_replay(args[1]))
    if not args:
        print(__doc__)
        sys.exit(2)
    prop = args[0]
    tier = os.environ.get("VERIF_TIER", "quick")
    if "--tier" in args:
        tier = args[args.index("--tier") + 1]
    only = None
    if "--only" in args:
        only = args[args.index("--only") + 1]
    seed = int(os.environ.get("VERIF_SEED", "0") or 0)
    t0 = time.time()
    if prop not in props.PROPS:
        log("property %s is not claimed (see MANIFEST.json not_applicable)" % prop)
        sys.exit(2)
    P = props.PROPS[prop]
    wd = WorkDir()
    try:
        jobs = props.build_jobs(prop, tier, wd, only)
        ncpu = os.cpu_count() or 8
        # Verus units first in parallel, kani groups are internally parallel: run kani groups 2 at a time.
        vjobs = [(l, f) for (l, f, k) in jobs if k == "verus"]
        buckets = {}
        for (l, f, k) in jobs:
            if k.startswith("kani"):
                buckets.setdefault(k, []).append((l, f))
        results = []
        # Verus units (CPU-light, 2 GB) run in parallel with the Kani groups; Kani groups of one feature set run one
        # after another, groups of different feature sets concurrently (props.KANI_BUCKETS at a time).
        import threading
        vres = []
        vt = None
        if vjobs:
            vt = threading.Thread(target=lambda: vres.extend(run_parallel(vjobs, min(len(vjobs), max(2, ncpu // 4)))))
            vt.start()
        kres = []
        if buckets:
            bjobs = [(k, (lambda js=js: run_parallel(js, 1))) for k, js in sorted(buckets.items())]
            for rs in run_parallel(bjobs, props.KANI_BUCKETS):
                if isinstance(rs, list):
                    kres.extend(rs)
                else:
                    kres.append(rs)      # internal error wrapped as a UnitResult
        if vt:
            vt.join()
        results = vres + kres
        rc = finish(prop, tier, seed, results, t0, P["level_text"], P.get("assumptions", []),
                    P.get("trusted_base", props.TRUSTED_BASE), category=P.get("category", "proof"))
    finally:
        wd.cleanup()
    sys.exit(rc)


if __name__ == "__main__":
    main()
