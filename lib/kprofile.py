#!/usr/bin/env python3
"""Developer aid: time every quick-tier harness of one feature set (first quick feature set of each harness).
usage: kprofile.py <featset> [jobs]"""
import os, subprocess, sys, time
sys.path.insert(0, os.path.dirname(os.path.abspath(__file__)))
import kunit

def main():
    fs = sys.argv[1]
    jobs = int(sys.argv[2]) if len(sys.argv) > 2 else 8
    hs = [h for h in kunit.load_harnesses().values() if h.tier != "thorough" and fs in h.feats[:h.quickfeats]]
    heavy = [h for h in hs if h.mem_gb >= 8]
    light = [h for h in hs if h.mem_gb < 8]
    for group, j in ((light, jobs), (heavy, max(1, min(jobs, 44 // max([h.mem_gb for h in heavy] or [4]))))):
        if not group:
            continue
        cmd = kunit._base_cmd(fs) + ["--output-format=terse", "-j", str(j), "--harness-timeout", "2400s", "--exact"]
        for h in group:
            cmd += ["--harness", h.path]
        t0 = time.time()
        p = subprocess.run(cmd, cwd=kunit.KANI_DIR, env=kunit._env(), stdout=subprocess.PIPE, stderr=subprocess.STDOUT, text=True)
        res = kunit.per_harness_results(p.stdout)
        print("# featset %s: %d harnesses, -j %d, wall %.0fs" % (fs, len(group), j, time.time() - t0))
        for k, (st, sec) in sorted(res.items(), key=lambda kv: -kv[1][1]):
            h = next(x for x in group if x.name == k)
            print("%8.1fs %-10s %-45s %s" % (sec, st, k, " ".join(h.props)))
        missing = [h.name for h in group if h.name not in res]
        if missing:
            print("# no result parsed for:", missing)
            print(p.stdout[-1500:])
        sys.stdout.flush()

main()
