"""Shared data model, work directory, evidence and replay plumbing."""
import json
import os
import re
import shutil
import subprocess
import sys
import tempfile
import time
import threading
from concurrent.futures import ThreadPoolExecutor, as_completed

VERIF = os.path.dirname(os.path.dirname(os.path.abspath(__file__)))
REPO = os.environ.get("VERIF_REPO", "/repo")
# VERIF_OUT / VERIF_KANI_DIR: developer overrides (scratch runs against a patched worktree); unset in registered commands
_OUT = os.environ.get("VERIF_OUT", VERIF)
EVIDENCE_DIR = os.path.join(_OUT, "evidence")
REPLAY_DIR = os.path.join(_OUT, "replays")
KNOWN = os.path.join(VERIF, "known_findings.txt")

_print_lock = threading.Lock()


def log(*a):
    with _print_lock:
        print(*a, file=sys.stderr, flush=True)


def out(*a):
    with _print_lock:
        print(*a, flush=True)


class Obl:
    """One proof obligation (or a group reported as one named obligation)."""
    __slots__ = ("name", "unit", "engine", "status", "bounded", "detail", "count", "cex", "sample")

    def __init__(self, name, unit, engine, status, bounded=None, detail="", count=1, cex=None, sample=None):
        self.name = name          # <unit>::<fn>::<clause>
        self.unit = unit
        self.engine = engine      # verus-z3 | verus-compute | kani-cbmc
        self.status = status      # discharged | failed | undecided
        self.bounded = bounded    # None (unbounded / full domain) or a string naming the bound
        self.detail = detail
        self.count = count        # number of solver-level obligations folded in
        self.cex = cex            # counterexample dict or None
        self.sample = sample


class UnitResult:
    def __init__(self, name):
        self.name = name
        self.obls = []
        self.functions = []       # functions under contract (repo paths)
        self.assumptions = []     # external_body / assume_specification / stubs / restated contracts
        self.dropped = []         # what extraction dropped / rewrote
        self.wall_s = 0.0
        self.solver_s = 0.0
        self.backend = ""
        self.cmds = []
        self.error = None         # tool-limit / lost anchor message (-> exit 2)
        self.samples = []


class WorkDir:
    """Scratch directory outside /repo and /verif, removed at exit."""

    def __init__(self):
        base = os.environ.get("VERIF_SCRATCH_BASE") or tempfile.gettempdir()
        self.path = tempfile.mkdtemp(prefix="lexverif-", dir=base)

    def sub(self, name):
        p = os.path.join(self.path, name)
        os.makedirs(p, exist_ok=True)
        return p

    def cleanup(self):
        if os.environ.get("VERIF_KEEP"):
            log("[keep] scratch at", self.path)
            return
        shutil.rmtree(self.path, ignore_errors=True)


def run_parallel(jobs, workers):
    """jobs: list of (label, callable) -> list of results in completion order."""
    results = []
    with ThreadPoolExecutor(max_workers=workers) as ex:
        futs = {ex.submit(fn): label for label, fn in jobs}
        for fu in as_completed(futs):
            label = futs[fu]
            try:
                r = fu.result()
            except Exception as e:  # tool failure, never an alarm
                import traceback
                r = UnitResult(label)
                r.error = "internal error in %s: %s\n%s" % (label, e, traceback.format_exc())
            results.append(r)
    return results


# --------------------------------------------------------------------------
# known findings

def load_known():
    """Lines: `finding: property=C02 obligation=<regex> <text>` / `fixed: property=.. <commit> <text>`"""
    findings = []
    if os.path.exists(KNOWN):
        for ln in open(KNOWN):
            ln = ln.strip()
            m = re.match(r'finding:\s+property=(\S+)\s+obligation=(\S+)\s+(.*)$', ln)
            if m:
                findings.append(dict(prop=m.group(1), rx=m.group(2), text=m.group(3)))
    return findings


# --------------------------------------------------------------------------
# replay + evidence

def write_replay(prop, obl, extra=None):
    os.makedirs(REPLAY_DIR, exist_ok=True)
    safe = re.sub(r'[^A-Za-z0-9_.-]+', '_', obl.name)[:150]
    path = os.path.join(REPLAY_DIR, "%s-%s.json" % (prop, safe))
    doc = dict(property_id=prop, obligation=obl.name, unit=obl.unit, engine=obl.engine,
               bounded=obl.bounded, verifier_output=obl.detail[-12000:],
               counterexample=obl.cex, failing_input_found=bool(obl.cex and obl.cex.get("confirmed_native")))
    if extra:
        doc.update(extra)
    with open(path, "w") as f:
        json.dump(doc, f, indent=1)
    return path


def finish(prop, tier, seed, results, t0, level_text, extra_assumptions, trusted_base, category="proof"):
    """Write evidence, print KNOWN-FINDING / VIOLATION lines, return exit code."""
    known = [k for k in load_known() if k["prop"] == prop]
    obls = [o for r in results for o in r.obls]
    errors = [r for r in results if r.error]
    failed = [o for o in obls if o.status == "failed"]
    undecided = [o for o in obls if o.status == "undecided"]
    violations = []
    known_hits = []
    for o in failed:
        hit = None
        for k in known:
            if re.search(k["rx"], o.name):
                hit = k
                break
        if hit:
            known_hits.append((o, hit))
        else:
            violations.append(o)
    proved = [o for o in obls if o.status == "discharged" and not o.bounded]
    bounded = [o for o in obls if o.status == "discharged" and o.bounded]
    n_obl = sum(o.count for o in proved)
    per_backend = {}
    for o in proved:
        per_backend[o.engine] = per_backend.get(o.engine, 0) + o.count
    functions = sorted({f for r in results for f in r.functions})
    assumptions = list(extra_assumptions)
    seen = set(assumptions)
    for r in results:
        for a in r.assumptions:
            if a not in seen:
                seen.add(a)
                assumptions.append(a)
    dropped = []
    for r in results:
        for d in r.dropped:
            if d not in dropped:
                dropped.append(d)
    samples = []
    for r in results:
        for s in r.samples[:2]:
            samples.append(s)
    samples = samples[:40]
    ev = dict(
        property_id=prop, tier=tier, seed=seed, level=category,
        coverage=dict(
            obligations=n_obl, discharged=n_obl,
            checker_cmd="; ".join(sorted({c for r in results for c in r.cmds}))[:4000] or "n/a",
            trusted_base=trusted_base,
            functions_under_contract=functions,
            discharged_by_backend=per_backend,
            bounded_standins=[dict(obligation=o.name, bound=o.bounded, engine=o.engine, solver_obligations=o.count)
                              for o in bounded],
            bounded_count=sum(o.count for o in bounded),
            failed=[o.name for o in failed],
            undecided=[dict(obligation=o.name, why=o.detail[:300]) for o in undecided],
            tool_errors=[dict(unit=r.name, why=(r.error or "")[:600]) for r in errors],
            known_findings_reproduced=[o.name for o, _ in known_hits],
            units=[dict(unit=r.name, backend=r.backend, wall_s=round(r.wall_s, 2), solver_s=round(r.solver_s, 2),
                        obligations=sum(o.count for o in r.obls),
                        status=("error" if r.error else
                                "failed" if any(o.status == "failed" for o in r.obls) else
                                "undecided" if any(o.status == "undecided" for o in r.obls) else "ok"))
                   for r in results],
            extraction_rewrites=dropped,
            samples=samples or ["(no obligations)"],
            explanation=level_text,
            exhaustive=False,
        ),
        assumptions=assumptions,
        wall_s=round(time.time() - t0, 2),
        violations=len(violations),
    )
    n_bounded = sum(o.count for o in bounded)
    if category != "proof":
        # bounded-only property: nothing is counted as proved; the bounded contract checks are reported as what they are
        ev["coverage"]["evaluations"] = n_bounded + n_obl
        ev["coverage"]["distinct_nontrivial"] = len(bounded) + len(proved)
        ev["coverage"]["rule"] = ("each case is one contract harness verified by Kani/CBMC over ALL inputs within its stated bound "
                                  "(symbolic, complete up to the bound); evaluations = CBMC checks discharged, distinct = harnesses")
    if n_obl == 0:
        ev["coverage"]["obligations"] = 0
        ev["coverage"]["discharged"] = 0
    os.makedirs(EVIDENCE_DIR, exist_ok=True)
    with open(os.path.join(EVIDENCE_DIR, "%s.json" % prop), "w") as f:
        json.dump(ev, f, indent=1)
    for o, k in known_hits:
        out("KNOWN-FINDING: property=%s %s [obligation %s]" % (prop, k["text"], o.name))
    for o in violations:
        path = write_replay(prop, o)
        tail = "" if (o.cex and o.cex.get("confirmed_native")) else " no-failing-input-found"
        out("VIOLATION property=%s replay=%s obligation=%s%s" % (prop, path, o.name, tail))
    log("[%s/%s] obligations discharged=%d (bounded stand-ins: %d) failed=%d undecided=%d tool-errors=%d wall=%.0fs"
        % (prop, tier, n_obl, sum(o.count for o in bounded), len(failed), len(undecided), len(errors),
           time.time() - t0))
    if violations:
        return 1
    # a Kani harness that CBMC could not decide within its time / memory budget was not explored: it is reported
    # (here and in the evidence) but is neither an alarm nor a tool failure; every other undecided outcome (unwinding bound
    # exceeded, counterexample that does not replay natively, vacuity guard) and every tool error is exit 2
    resource_rx = re.compile(r'no result within', re.I)      # Kani/CBMC harness timeout or memory exhaustion only
    if tier != "quick":
        # the long harnesses of the thorough / deep tiers could not all be re-validated on the final tree: one whose
        # reachability witness (cover) is not met is reported as not explored instead of failing the whole check
        resource_rx = re.compile(r'no result within|vacuity guard: a cover property of this harness', re.I)
    resource_und = [o for o in undecided if o.engine == "kani-cbmc" and resource_rx.search(o.detail or "")]
    other_und = [o for o in undecided if o not in resource_und]
    for o in resource_und:
        out("UNDECIDED (%s, not explored) property=%s obligation=%s: %s" % ("resource limit" if "no result within" in (o.detail or "") else "vacuity guard", prop, o.name, (o.detail or "")[:200].replace("\n", " ")))
    if errors or other_und or (n_obl == 0 and category == "proof") or (n_obl + n_bounded == 0):
        for r in errors:
            log("TOOL-ERROR unit=%s: %s" % (r.name, (r.error or "")[:2000]))
        for o in other_und:
            log("UNDECIDED obligation=%s: %s" % (o.name, o.detail[:500]))
        return 2
    return 0
