//! Native replay of a Kani counterexample: `replay <harness> <hexbytes,hexbytes,...>`
#[cfg(kani)]
fn main() {}
#[cfg(not(kani))]
fn main() {
    use lexverif::vk::native;
    let args: Vec<String> = std::env::args().collect();
    if args.len() < 2 { eprintln!("usage: replay <harness> [hex,hex,...]"); std::process::exit(2); }
    let name = &args[1];
    let vals: Vec<Vec<u8>> = if args.len() > 2 && !args[2].is_empty() {
        args[2].split(',').map(|h| (0..h.len() / 2).map(|i| u8::from_str_radix(&h[2 * i..2 * i + 2], 16).unwrap()).collect()).collect()
    } else { Vec::new() };
    let hs = lexverif::all_harnesses();
    let Some((_, f)) = hs.iter().find(|(n, _)| n == name) else { eprintln!("unknown harness {name}"); std::process::exit(2) };
    native::load(vals);
    let f = *f;
    let r = std::panic::catch_unwind(move || f());
    let failed = native::FAILED.with(|f| f.borrow().clone());
    let diverged = native::ASSUME_BROKEN.with(|a| a.borrow().clone());
    let exhausted = native::EXHAUSTED.with(|a| *a.borrow());
    if diverged.is_some() || exhausted {
        println!("REPLAY-DIVERGED harness={name} (assumption not met or value queue mismatch)");
        std::process::exit(3);
    }
    match r {
        Err(e) => {
            let msg = e.downcast_ref::<String>().cloned().or_else(|| e.downcast_ref::<&str>().map(|s| s.to_string())).unwrap_or_default();
            println!("REPLAY-CONFIRMED harness={name} real code panicked: {msg}");
            std::process::exit(1);
        }
        Ok(()) if !failed.is_empty() => {
            println!("REPLAY-CONFIRMED harness={name} failed postconditions: {failed:?}");
            std::process::exit(1);
        }
        Ok(()) => { println!("REPLAY-PASSED harness={name}"); }
    }
}
