//! C13: digit separators never change a value (relational contracts between a separator format F and its
//! separator-free counterpart F0).
#![cfg(feature = "format")]
use crate::vk::{any, assume, cover};
use crate::vcheck;
use lexical_parse_float::parse::{parse_complete_number, parse_partial_number};
use lexical_parse_float::Options;
use lexical_util::format::NumberFormatBuilder as B;
use lexical_util::iterator::AsBytes;
use core::num::NonZeroU8;

pub const SEP: u8 = b'_';
const fn sep() -> Option<NonZeroU8> { NonZeroU8::new(SEP) }

pub const F0: u128 = B::new().build_strict();
pub const F_I: u128 = B::new().digit_separator(sep()).internal_digit_separator(true).build_strict();
pub const F_IC: u128 = B::new().digit_separator(sep()).internal_digit_separator(true).consecutive_digit_separator(true).build_strict();
pub const F_L: u128 = B::new().digit_separator(sep()).leading_digit_separator(true).build_strict();
pub const F_T: u128 = B::new().digit_separator(sep()).trailing_digit_separator(true).build_strict();
pub const F_ILT: u128 = B::new().digit_separator(sep()).internal_digit_separator(true).leading_digit_separator(true).trailing_digit_separator(true).build_strict();
pub const F_ALL: u128 = B::new().digit_separator(sep()).digit_separator_flags(true).build_strict();
pub const F_LTC: u128 = B::new().digit_separator(sep()).leading_digit_separator(true).trailing_digit_separator(true).consecutive_digit_separator(true).build_strict();
pub const F_ILC: u128 = B::new().digit_separator(sep()).internal_digit_separator(true).leading_digit_separator(true).consecutive_digit_separator(true).build_strict();
pub const F_ITC: u128 = B::new().digit_separator(sep()).internal_digit_separator(true).trailing_digit_separator(true).consecutive_digit_separator(true).build_strict();
pub const F_LC: u128 = B::new().digit_separator(sep()).leading_digit_separator(true).consecutive_digit_separator(true).build_strict();
pub const F_TC: u128 = B::new().digit_separator(sep()).trailing_digit_separator(true).consecutive_digit_separator(true).build_strict();
pub const F_IL: u128 = B::new().digit_separator(sep()).internal_digit_separator(true).leading_digit_separator(true).build_strict();
pub const F_IT: u128 = B::new().digit_separator(sep()).internal_digit_separator(true).trailing_digit_separator(true).build_strict();
pub const F_LT: u128 = B::new().digit_separator(sep()).leading_digit_separator(true).trailing_digit_separator(true).build_strict();
pub const F_INT_I: u128 = B::new().digit_separator(sep()).integer_internal_digit_separator(true).build_strict();
pub const F_FRAC_I: u128 = B::new().digit_separator(sep()).fraction_internal_digit_separator(true).build_strict();
pub const F_EXP_I: u128 = B::new().digit_separator(sep()).exponent_internal_digit_separator(true).build_strict();
pub const F_INT_ILTC: u128 = B::new().digit_separator(sep()).integer_digit_separator_flags(true).build_strict();

/// R2 only, partial tokenizer only (cheap enough for long digit templates)
pub fn cmp_sep_r2<const F: u128>(s: &[u8]) -> Result<(), &'static str> {
    let opts = Options::new();
    let rp = parse_partial_number::<F>(s.bytes::<F>(), false, &opts);
    let r0 = parse_partial_number::<F0>(s.bytes::<F0>(), false, &opts);
    match (&rp, &r0) {
        (Ok((a, na)), Ok((b, nb))) => {
            if na != nb { return Err("R2: consumed count differs from the separator-free format"); }
            if a.mantissa != b.mantissa || (a.mantissa != 0 && a.exponent != b.exponent) || a.many_digits != b.many_digits { return Err("R2: value differs from the separator-free format"); }
            Ok(())
        },
        (Err(_), Err(_)) => Ok(()),
        _ => Err("R2: accept/reject differs from the separator-free format"),
    }
}

/// flags (internal, leading, trailing, consecutive) of a component: 0 integer, 1 fraction, 2 exponent (documented bit layout)
fn comp_flags(f: u128, comp: u32) -> (bool, bool, bool, bool) {
    let b = |i: u32| (f >> i) & 1 == 1;
    (b(32 + comp), b(35 + comp), b(38 + comp), b(41 + comp))
}

/// Is the digit/separator string `w` a valid component? Returns (valid, digit_count, has_separator).
/// Grammar (docs/DigitSeparators.md): a run before the first digit is leading, after the last digit trailing, between
/// digits internal; a run longer than one additionally needs the consecutive flag.
fn comp_ok(w: &[u8], f: u128, comp: u32) -> (bool, usize, bool) {
    let (i_, l_, t_, c_) = comp_flags(f, comp);
    let mut ndig = 0usize; let mut has_sep = false;
    let mut k = 0;
    while k < w.len() { if w[k] == SEP { has_sep = true; } else { ndig += 1; } k += 1; }
    if ndig == 0 { return (!has_sep, 0, has_sep); }
    let mut ok = true;
    let mut seen_digit = false;
    let mut k = 0;
    while k < w.len() {
        if w[k] != SEP { seen_digit = true; k += 1; continue; }
        let start = k;
        while k < w.len() && w[k] == SEP { k += 1; }
        let run = k - start;
        let at_end = k == w.len();
        let allowed = if !seen_digit { l_ } else if at_end { t_ } else { i_ };
        if !allowed || (run > 1 && !c_) { ok = false; }
    }
    (ok, ndig, has_sep)
}

/// R3: the complete tokenizer accepts a decimal float string exactly when every component is a valid
/// digit/separator string for its flags (claim restricted to components that contain a digit).
pub fn cmp_sep_grammar<const F: u128>(s: &[u8]) -> Result<(), &'static str> {
    if s.is_empty() { return Ok(()); }
    // decompose: INT [. FRAC] [e [sign] EXP] ; anything else => no claim from this relation
    let mut i = 0;
    while i < s.len() && ((s[i] >= b'0' && s[i] <= b'9') || s[i] == SEP) { i += 1; }
    let int_end = i;
    let mut frac = (i, i); let mut has_dot = false;
    if i < s.len() && s[i] == b'.' { has_dot = true; i += 1; let st = i; while i < s.len() && ((s[i] >= b'0' && s[i] <= b'9') || s[i] == SEP) { i += 1; } frac = (st, i); }
    let mut exp = (i, i); let mut has_exp = false;
    if i < s.len() && (s[i] == b'e' || s[i] == b'E') { has_exp = true; i += 1; if i < s.len() && (s[i] == b'+' || s[i] == b'-') { i += 1; } let st = i; while i < s.len() && ((s[i] >= b'0' && s[i] <= b'9') || s[i] == SEP) { i += 1; } exp = (st, i); }
    if i != s.len() { return Ok(()); }
    let (ok_i, nd_i, sep_i) = comp_ok(&s[..int_end], F, 0);
    let (ok_f, nd_f, sep_f) = comp_ok(&s[frac.0..frac.1], F, 1);
    let (ok_e, nd_e, sep_e) = comp_ok(&s[exp.0..exp.1], F, 2);
    // no claim for separator-only components
    if (sep_i && nd_i == 0) || (sep_f && nd_f == 0) || (sep_e && nd_e == 0) { return Ok(()); }
    let _ = has_dot;
    let want = ok_i && ok_f && ok_e && nd_i + nd_f > 0 && (!has_exp || nd_e > 0);
    let opts = Options::new();
    let got = parse_complete_number::<F>(s.bytes::<F>(), false, &opts).is_ok();
    if got && !want { return Err("R3: accepted although a separator stands in a position the flags do not enable"); }
    if !got && want { return Err("R3: rejected although every separator stands in an enabled position"); }
    Ok(())
}

pub fn strip(s: &[u8], out: &mut [u8; 32]) -> usize {
    let mut n = 0;
    let mut i = 0;
    while i < s.len() { if s[i] != SEP { out[n] = s[i]; n += 1; } i += 1; }
    n
}

/// R1: accepted under F => the separator-free text is accepted under F0 with the same value.
/// R2: no separator byte in the input => F and F0 agree exactly (accept/reject, count, value).
pub fn cmp_sep<const F: u128>(s: &[u8]) -> Result<(), &'static str> {
    if s.is_empty() { return Ok(()); }
    let opts = Options::new();
    let rp = parse_partial_number::<F>(s.bytes::<F>(), false, &opts);
    let mut has_sep = false;
    let mut i = 0;
    while i < s.len() { if s[i] == SEP { has_sep = true; } i += 1; }
    if !has_sep {
        let r0 = parse_partial_number::<F0>(s.bytes::<F0>(), false, &opts);
        match (&rp, &r0) {
            (Ok((a, na)), Ok((b, nb))) => {
                if na != nb { return Err("R2: no separator in the input, but consumed count differs from the separator-free format"); }
                if a.mantissa != b.mantissa || (a.mantissa != 0 && a.exponent != b.exponent) || a.many_digits != b.many_digits { return Err("R2: no separator in the input, but the value differs from the separator-free format"); }
            },
            (Err(_), Err(_)) => {},
            _ => return Err("R2: no separator in the input, but accept/reject differs from the separator-free format"),
        }
        let c = parse_complete_number::<F>(s.bytes::<F>(), false, &opts);
        let c0 = parse_complete_number::<F0>(s.bytes::<F0>(), false, &opts);
        if c.is_ok() != c0.is_ok() { return Err("R2 (complete): accept/reject differs from the separator-free format"); }
    }
    if let Ok((num, cnt)) = rp {
        if cnt > s.len() { return Err("count <= len"); }
        let mut buf = [0u8; 32];
        let n = strip(&s[..cnt], &mut buf);
        if n == 0 { return Ok(()); }
        match parse_complete_number::<F0>(buf[..n].bytes::<F0>(), false, &opts) {
            Ok(num0) => {
                if num.mantissa != num0.mantissa || (num.mantissa != 0 && num.exponent != num0.exponent) { return Err("R1: value changes when the separators are deleted"); }
            },
            Err(_) => return Err("R1: accepted with separators but rejected once they are deleted"),
        }
    }
    Ok(())
}

macro_rules! sep_body {
    ($F:expr, $L:expr) => {{
        const F: u128 = $F;
        let bytes: [u8; $L] = any();
        let len: usize = any();
        assume(len <= $L);
        let mut i = 0;
        while i < $L {
            let c = bytes[i];
            assume(c == b'0' || c == b'1' || c == b'9' || c == b'_' || c == b'.' || c == b'e' || c == b'+' || c == b'-' || c == b'a');
            i += 1;
        }
        let r = cmp_sep::<F>(&bytes[..len]);
        vcheck!(r.is_ok(), "separators never change the value; separator-free inputs behave as in the separator-free format");
        cover(len == $L);
    }};
}

/// C11 over separator formats: complete(s) = Ok(v) <=> partial(s) = Ok((v, len)); partial(s) = Ok((v, n)), n > 0 => complete(s[..n]) = Ok(v).
pub fn cmp_sep_partial_complete<const F: u128>(s: &[u8]) -> Result<(), &'static str> {
    if s.is_empty() { return Ok(()); }   // precondition of parse_number: callers handle the empty input
    let opts = Options::new();
    let rp = parse_partial_number::<F>(s.bytes::<F>(), false, &opts);
    let rc = parse_complete_number::<F>(s.bytes::<F>(), false, &opts);
    let same = |a: &lexical_parse_float::number::Number, b: &lexical_parse_float::number::Number| a.mantissa == b.mantissa && a.exponent == b.exponent && a.many_digits == b.many_digits;
    match (&rc, &rp) {
        (Ok(c), Ok((p, n))) => { if *n != s.len() || !same(c, p) { return Err("complete Ok(v) => partial Ok((v, len))"); } },
        (Ok(_), Err(_)) => return Err("complete Ok(v) => partial Ok"),
        (Err(_), Ok((_, n))) => { if *n == s.len() { return Err("partial Ok((v, len)) => complete Ok(v)"); } },
        (Err(_), Err(_)) => {},
    }
    if let Ok((p, n)) = &rp {
        if *n > s.len() { return Err("count <= len"); }
        if *n > 0 {
            match parse_complete_number::<F>(s[..*n].bytes::<F>(), false, &opts) {
                Ok(c) => if !same(&c, p) { return Err("partial Ok((v, n)) => complete(prefix n) has the same value") },
                Err(_) => return Err("partial Ok((v, n)) => complete(prefix n) is Ok"),
            }
        }
    }
    Ok(())
}

macro_rules! pc_body {
    ($F:expr, $L:expr) => {{
        const F: u128 = $F;
        let bytes: [u8; $L] = any();
        let len: usize = any();
        assume(len <= $L);
        let mut i = 0;
        while i < $L {
            let c = bytes[i];
            assume(c == b'0' || c == b'7' || c == b'_' || c == b'.' || c == b'e' || c == b'x');
            i += 1;
        }
        let r = cmp_sep_partial_complete::<F>(&bytes[..len]);
        vcheck!(r.is_ok(), "partial and complete tokenizers agree under a digit-separator format");
        cover(len == $L);
    }};
}

/// R3 on the integer parser (same skip iterators, far less code than the float tokenizer): for strings over
/// {digit, separator} the complete parser accepts exactly when every separator run stands in an enabled position, and the
/// value is that of the digits.
pub fn cmp_sep_grammar_int<const F: u128>(s: &[u8]) -> Result<(), &'static str> {
    use lexical_parse_integer::FromLexicalWithOptions;
    if s.is_empty() { return Ok(()); }
    let mut i = 0;
    while i < s.len() { if !((s[i] >= b'0' && s[i] <= b'9') || s[i] == SEP) { return Ok(()); } i += 1; }
    let (ok, nd, has_sep) = comp_ok(s, F, 0);
    if has_sep && nd == 0 { return Ok(()); }            // no claim for separator-only inputs
    let mut want_v: u64 = 0; let mut k = 0;
    while k < s.len() { if s[k] != SEP { want_v = want_v * 10 + (s[k] - b'0') as u64; } k += 1; }
    let opts = lexical_parse_integer::Options::new();
    match u64::from_lexical_with_options::<F>(s, &opts) {
        Ok(v) => { if !ok { return Err("R3 (integer): accepted although a separator stands in a position the flags do not enable"); }
                   if v != want_v { return Err("R1 (integer): separators change the value"); } },
        Err(_) => { if ok && nd > 0 { return Err("R3 (integer): rejected although every separator stands in an enabled position"); } },
    }
    Ok(())
}

/// Slice contract of parse_number (relied upon by the slow path, which re-reads the digits): for an accepted complete input
/// without sign, `Number.integer` is exactly the byte range before the decimal point / exponent character / end, and
/// `Number.fraction` is `Some(exactly the byte range between the decimal point and the exponent character / end)` iff there
/// is a decimal point - separators included, whatever component they belong to.
pub fn cmp_number_slices<const F: u128>(s: &[u8]) -> Result<(), &'static str> {
    if s.is_empty() { return Ok(()); }
    let opts = Options::new();
    let num = match parse_complete_number::<F>(s.bytes::<F>(), false, &opts) { Ok(n) => n, Err(_) => return Ok(()) };
    let mut i = 0;
    while i < s.len() && s[i] != b'.' && s[i] != b'e' { i += 1; }
    if num.integer.len() != i || num.integer.as_ptr() != s.as_ptr() { return Err("Number.integer is the byte range of the integer component"); }
    if i < s.len() && s[i] == b'.' {
        let mut j = i + 1;
        while j < s.len() && s[j] != b'e' { j += 1; }
        match num.fraction {
            Some(f) => { if f.len() != j - i - 1 || f.as_ptr() != s[i + 1..].as_ptr() { return Err("Number.fraction is the byte range of the fraction component (separators included)"); } },
            None => return Err("Number.fraction is Some when the input has a decimal point"),
        }
    } else if num.fraction.is_some() { return Err("Number.fraction is None when the input has no decimal point"); }
    Ok(())
}

macro_rules! slices_body {
    ($F:expr, $L:expr) => {{
        const F: u128 = $F;
        let bytes: [u8; $L] = any();
        let len: usize = any();
        assume(len <= $L);
        let mut i = 0;
        while i < $L { let c = bytes[i]; assume(c == b'0' || c == b'7' || c == b'_' || c == b'.' || c == b'e'); i += 1; }
        let r = cmp_number_slices::<F>(&bytes[..len]);
        vcheck!(r.is_ok(), "parse_number returns the byte ranges of the integer and fraction components");
        cover(len == $L);
    }};
}

macro_rules! grammar_int_body {
    ($F:expr, $L:expr) => {{
        const F: u128 = $F;
        let bytes: [u8; $L] = any();
        let len: usize = any();
        assume(len <= $L);
        let mut i = 0;
        while i < $L { let c = bytes[i]; assume(c == b'0' || c == b'7' || c == b'_'); i += 1; }
        let r = cmp_sep_grammar_int::<F>(&bytes[..len]);
        vcheck!(r.is_ok(), "integer parser: accepted <=> every separator run stands in an enabled position; value unchanged");
        cover(len == $L);
    }};
}

/// C11 on the integer parser under a separator format: complete Ok(v) <=> partial Ok((v, len)); partial Ok((v, n)), n > 0 =>
/// complete(prefix n) == Ok(v)
pub fn cmp_sep_partial_complete_int_t<T: lexical_parse_integer::FromLexicalWithOptions<Options = lexical_parse_integer::Options> + PartialEq + Copy, const F: u128>(s: &[u8]) -> Result<(), &'static str> {
    use lexical_parse_integer::{FromLexicalWithOptions, Options as IOptions};
    let opts = IOptions::new();
    let rc = T::from_lexical_with_options::<F>(s, &opts);
    let rp = T::from_lexical_partial_with_options::<F>(s, &opts);
    match (&rc, &rp) {
        (Ok(c), Ok((p, n))) => { if *n != s.len() || c != p { return Err("complete Ok(v) => partial Ok((v, len)) (integer)"); } },
        (Ok(_), Err(_)) => return Err("complete Ok(v) => partial Ok (integer)"),
        (Err(_), Ok((_, n))) => { if *n == s.len() { return Err("partial Ok((v, len)) => complete Ok(v) (integer)"); } },
        (Err(_), Err(_)) => {},
    }
    if let Ok((p, n)) = &rp {
        if *n > s.len() { return Err("count <= len"); }
        if *n > 0 {
            match T::from_lexical_with_options::<F>(&s[..*n], &opts) {
                Ok(c) => if c != *p { return Err("partial Ok((v, n)) => complete(prefix n) has the same value (integer)") },
                Err(_) => return Err("partial Ok((v, n)) => complete(prefix n) is Ok (integer)"),
            }
        }
    }
    Ok(())
}

pub fn cmp_sep_partial_complete_int<const F: u128>(s: &[u8]) -> Result<(), &'static str> { cmp_sep_partial_complete_int_t::<u64, F>(s) }

macro_rules! pc_int_body {
    ($F:expr, $L:expr) => {{
        const F: u128 = $F;
        let bytes: [u8; $L] = any();
        let len: usize = any();
        assume(len <= $L);
        let mut i = 0;
        while i < $L { let c = bytes[i]; assume(c == b'0' || c == b'7' || c == b'_' || c == b'x'); i += 1; }
        let r = cmp_sep_partial_complete_int::<F>(&bytes[..len]);
        vcheck!(r.is_ok(), "integer parser: partial and complete agree under a digit-separator format");
        cover(len == $L);
    }};
}

macro_rules! pc_u16_body {
    ($F:expr, $L:expr) => {{
        const F: u128 = $F;
        let bytes: [u8; $L] = any();
        let len: usize = any();
        assume(len <= $L);
        let mut i = 0;
        while i < $L { let c = bytes[i]; assume(c == b'0' || c == b'7' || c == b'_' || c == b'x'); i += 1; }
        let r = cmp_sep_partial_complete_int_t::<u16, F>(&bytes[..len]);
        vcheck!(r.is_ok(), "integer parser: partial and complete agree under a digit-separator format");
        cover(len == $L);
    }};
}

macro_rules! grammar_body {
    ($F:expr, $L:expr) => {{
        const F: u128 = $F;
        let bytes: [u8; $L] = any();
        let len: usize = any();
        assume(len <= $L);
        let mut i = 0;
        while i < $L {
            let c = bytes[i];
            assume(c == b'0' || c == b'7' || c == b'_' || c == b'.' || c == b'e');
            i += 1;
        }
        let r = cmp_sep_grammar::<F>(&bytes[..len]);
        vcheck!(r.is_ok(), "accepted <=> every separator run stands in a position (leading/internal/trailing, single/consecutive) the flags enable");
        cover(len == $L);
    }};
}

crate::harnesses! {
    /// partial vs complete INTEGER parser (u16: no multi-digit fast path, overflow reachable), flags LTC: strings len <= 4 over {0 7 _ x}.
    /// @prop C11 C13~
    /// @feat format radix_format
    /// @bound format F_LTC; u16 inputs of length <= 4 over {0 7 _ x}
    /// @fn lexical-parse-integer::algorithm (complete / partial instantiations)
    /// @fn lexical-util::skip::is_ltc!
    /// @timeout 1200
    #[cfg_attr(kani, kani::unwind(8))]
    fn sep_partial_complete_u16_ltc_len4() { pc_u16_body!(F_LTC, 4) }

    /// partial vs complete INTEGER parser (u16: no multi-digit fast path, overflow reachable), flags LTC: strings len <= 5 over {0 7 _ x}.
    /// @prop C11 C13~
    /// @tier thorough
    /// @feat format radix_format
    /// @bound format F_LTC; u16 inputs of length <= 5 over {0 7 _ x}
    /// @fn lexical-parse-integer::algorithm (complete / partial instantiations)
    /// @fn lexical-util::skip::is_ltc!
    /// @timeout 1200
    #[cfg_attr(kani, kani::unwind(8))]
    fn sep_partial_complete_u16_ltc() { pc_u16_body!(F_LTC, 5) }

    /// partial vs complete INTEGER parser, flags LTC: strings len <= 5 over {0 7 _ x}.
    /// @prop C11 C13~
    /// @tier thorough
    /// @feat format radix_format
    /// @bound format F_LTC; integer inputs of length <= 5 over {0 7 _ x}
    /// @fn lexical-parse-integer::algorithm (complete / partial instantiations)
    /// @fn lexical-util::skip::is_ltc!
    /// @timeout 1200
    #[cfg_attr(kani, kani::unwind(8))]
    fn sep_partial_complete_int_ltc() { pc_int_body!(F_LTC, 5) }

    /// partial vs complete INTEGER parser (u16: no multi-digit fast path, overflow reachable), flags ITC: strings len <= 5 over {0 7 _ x}.
    /// @prop C11 C13~
    /// @feat format radix_format
    /// @bound format F_ITC; u16 inputs of length <= 5 over {0 7 _ x}
    /// @fn lexical-parse-integer::algorithm (complete / partial instantiations)
    /// @fn lexical-util::skip::is_itc!
    /// @timeout 1200
    #[cfg_attr(kani, kani::unwind(8))]
    fn sep_partial_complete_u16_itc() { pc_u16_body!(F_ITC, 5) }

    /// partial vs complete INTEGER parser, flags ITC: strings len <= 5 over {0 7 _ x}.
    /// @prop C11 C13~
    /// @tier thorough
    /// @feat format radix_format
    /// @bound format F_ITC; integer inputs of length <= 5 over {0 7 _ x}
    /// @fn lexical-parse-integer::algorithm (complete / partial instantiations)
    /// @fn lexical-util::skip::is_itc!
    /// @timeout 1200
    #[cfg_attr(kani, kani::unwind(8))]
    fn sep_partial_complete_int_itc() { pc_int_body!(F_ITC, 5) }

    /// partial vs complete INTEGER parser (u16: no multi-digit fast path, overflow reachable), flags ILC: strings len <= 5 over {0 7 _ x}.
    /// @prop C11 C13~
    /// @tier thorough
    /// @feat format radix_format
    /// @bound format F_ILC; u16 inputs of length <= 5 over {0 7 _ x}
    /// @fn lexical-parse-integer::algorithm (complete / partial instantiations)
    /// @fn lexical-util::skip::is_ilc!
    /// @timeout 1200
    #[cfg_attr(kani, kani::unwind(8))]
    fn sep_partial_complete_u16_ilc() { pc_u16_body!(F_ILC, 5) }

    /// partial vs complete INTEGER parser, flags ILC: strings len <= 5 over {0 7 _ x}.
    /// @prop C11 C13~
    /// @tier thorough
    /// @feat format radix_format
    /// @bound format F_ILC; integer inputs of length <= 5 over {0 7 _ x}
    /// @fn lexical-parse-integer::algorithm (complete / partial instantiations)
    /// @fn lexical-util::skip::is_ilc!
    /// @timeout 1200
    #[cfg_attr(kani, kani::unwind(8))]
    fn sep_partial_complete_int_ilc() { pc_int_body!(F_ILC, 5) }

    /// partial vs complete INTEGER parser (u16: no multi-digit fast path, overflow reachable), flags ILTC: strings len <= 5 over {0 7 _ x}.
    /// @prop C11 C13~
    /// @feat format radix_format
    /// @bound format F_ALL; u16 inputs of length <= 5 over {0 7 _ x}
    /// @fn lexical-parse-integer::algorithm (complete / partial instantiations)
    /// @fn lexical-util::skip::is_iltc!
    /// @timeout 1200
    #[cfg_attr(kani, kani::unwind(8))]
    fn sep_partial_complete_u16_iltc() { pc_u16_body!(F_ALL, 5) }

    /// partial vs complete INTEGER parser, flags ILTC: strings len <= 5 over {0 7 _ x}.
    /// @prop C11 C13~
    /// @tier thorough
    /// @feat format radix_format
    /// @bound format F_ALL; integer inputs of length <= 5 over {0 7 _ x}
    /// @fn lexical-parse-integer::algorithm (complete / partial instantiations)
    /// @fn lexical-util::skip::is_iltc!
    /// @timeout 1200
    #[cfg_attr(kani, kani::unwind(8))]
    fn sep_partial_complete_int_iltc() { pc_int_body!(F_ALL, 5) }

    /// partial vs complete INTEGER parser (u16: no multi-digit fast path, overflow reachable), flags LT: strings len <= 5 over {0 7 _ x}.
    /// @prop C11 C13~
    /// @feat format radix_format
    /// @bound format F_LT; u16 inputs of length <= 5 over {0 7 _ x}
    /// @fn lexical-parse-integer::algorithm (complete / partial instantiations)
    /// @fn lexical-util::skip::is_lt!
    /// @timeout 1200
    #[cfg_attr(kani, kani::unwind(8))]
    fn sep_partial_complete_u16_lt() { pc_u16_body!(F_LT, 5) }

    /// partial vs complete INTEGER parser, flags LT: strings len <= 5 over {0 7 _ x}.
    /// @prop C11 C13~
    /// @tier thorough
    /// @feat format radix_format
    /// @bound format F_LT; integer inputs of length <= 5 over {0 7 _ x}
    /// @fn lexical-parse-integer::algorithm (complete / partial instantiations)
    /// @fn lexical-util::skip::is_lt!
    /// @timeout 1200
    #[cfg_attr(kani, kani::unwind(8))]
    fn sep_partial_complete_int_lt() { pc_int_body!(F_LT, 5) }

    /// partial vs complete INTEGER parser (u16: no multi-digit fast path, overflow reachable), flags TC: strings len <= 5 over {0 7 _ x}.
    /// @prop C11 C13~
    /// @feat format radix_format
    /// @bound format F_TC; u16 inputs of length <= 5 over {0 7 _ x}
    /// @fn lexical-parse-integer::algorithm (complete / partial instantiations)
    /// @fn lexical-util::skip::is_tc!
    /// @timeout 1200
    #[cfg_attr(kani, kani::unwind(8))]
    fn sep_partial_complete_u16_tc() { pc_u16_body!(F_TC, 5) }

    /// partial vs complete INTEGER parser, flags TC: strings len <= 5 over {0 7 _ x}.
    /// @prop C11 C13~
    /// @tier thorough
    /// @feat format radix_format
    /// @bound format F_TC; integer inputs of length <= 5 over {0 7 _ x}
    /// @fn lexical-parse-integer::algorithm (complete / partial instantiations)
    /// @fn lexical-util::skip::is_tc!
    /// @timeout 1200
    #[cfg_attr(kani, kani::unwind(8))]
    fn sep_partial_complete_int_tc() { pc_int_body!(F_TC, 5) }

    /// partial vs complete INTEGER parser (u16: no multi-digit fast path, overflow reachable), flags T: strings len <= 5 over {0 7 _ x}.
    /// @prop C11 C13~
    /// @feat format radix_format
    /// @bound format F_T; u16 inputs of length <= 5 over {0 7 _ x}
    /// @fn lexical-parse-integer::algorithm (complete / partial instantiations)
    /// @fn lexical-util::skip::is_t!
    /// @timeout 1200
    #[cfg_attr(kani, kani::unwind(8))]
    fn sep_partial_complete_u16_t() { pc_u16_body!(F_T, 5) }

    /// partial vs complete INTEGER parser, flags T: strings len <= 5 over {0 7 _ x}.
    /// @prop C11 C13~
    /// @tier thorough
    /// @feat format radix_format
    /// @bound format F_T; integer inputs of length <= 5 over {0 7 _ x}
    /// @fn lexical-parse-integer::algorithm (complete / partial instantiations)
    /// @fn lexical-util::skip::is_t!
    /// @timeout 1200
    #[cfg_attr(kani, kani::unwind(8))]
    fn sep_partial_complete_int_t() { pc_int_body!(F_T, 5) }

    /// partial vs complete INTEGER parser (u16: no multi-digit fast path, overflow reachable), flags IT: strings len <= 5 over {0 7 _ x}.
    /// @prop C11 C13~
    /// @feat format radix_format
    /// @bound format F_IT; u16 inputs of length <= 5 over {0 7 _ x}
    /// @fn lexical-parse-integer::algorithm (complete / partial instantiations)
    /// @fn lexical-util::skip::is_it!
    /// @timeout 1200
    #[cfg_attr(kani, kani::unwind(8))]
    fn sep_partial_complete_u16_it() { pc_u16_body!(F_IT, 5) }

    /// partial vs complete INTEGER parser, flags IT: strings len <= 5 over {0 7 _ x}.
    /// @prop C11 C13~
    /// @tier thorough
    /// @feat format radix_format
    /// @bound format F_IT; integer inputs of length <= 5 over {0 7 _ x}
    /// @fn lexical-parse-integer::algorithm (complete / partial instantiations)
    /// @fn lexical-util::skip::is_it!
    /// @timeout 1200
    #[cfg_attr(kani, kani::unwind(8))]
    fn sep_partial_complete_int_it() { pc_int_body!(F_IT, 5) }

    /// byte ranges returned by parse_number, separators enabled in the fraction only: strings len <= 5 over {0 7 _ . e}.
    /// @prop C13 C10
    /// @feat format radix_format
    /// @bound format F_FRAC_I; input length <= 5 over {0 7 _ . e}
    /// @fn lexical-parse-float::parse::parse_number (integer_digits / fraction_digits slices)
    /// @timeout 1200
    #[cfg_attr(kani, kani::unwind(8))]
    fn sep_number_slices_frac_only() { slices_body!(F_FRAC_I, 5) }

    /// byte ranges returned by parse_number, separators enabled in the integer only.
    /// @prop C13 C10
    /// @feat format radix_format
    /// @bound format F_INT_I; input length <= 5 over {0 7 _ . e}
    /// @fn lexical-parse-float::parse::parse_number (integer_digits / fraction_digits slices)
    /// @timeout 1200
    #[cfg_attr(kani, kani::unwind(8))]
    fn sep_number_slices_int_only() { slices_body!(F_INT_I, 5) }

    /// separator-position grammar on the INTEGER parser, separators enabled for the fraction only (none valid in an integer): strings len <= 5 over {0 7 _}.
    /// @prop C13
    /// @feat format radix_format
    /// @bound format F_FRAC_I; integer inputs of length <= 5 over {0 7 _}
    /// @fn lexical-util::skip (component iterator `next`, `current_count`) via lexical-parse-integer::algorithm
    /// @timeout 1200
    #[cfg_attr(kani, kani::unwind(8))]
    fn sep_grammar_int_frac_only() { grammar_int_body!(F_FRAC_I, 5) }

    /// separator-position grammar on the INTEGER parser, separators enabled for the exponent only: strings len <= 5 over {0 7 _}.
    /// @prop C13
    /// @feat format radix_format
    /// @bound format F_EXP_I; integer inputs of length <= 5 over {0 7 _}
    /// @fn lexical-util::skip (component iterator `next`, `current_count`) via lexical-parse-integer::algorithm
    /// @timeout 1200
    #[cfg_attr(kani, kani::unwind(8))]
    fn sep_grammar_int_exp_only() { grammar_int_body!(F_EXP_I, 5) }

    /// separator-position grammar on the INTEGER parser, all separator flags for the integer component only: strings len <= 5 over {0 7 _}.
    /// @prop C13
    /// @feat format radix_format
    /// @bound format F_INT_ILTC; integer inputs of length <= 5 over {0 7 _}
    /// @fn lexical-util::skip (component iterator `next`, `current_count`) via lexical-parse-integer::algorithm
    /// @timeout 1200
    #[cfg_attr(kani, kani::unwind(8))]
    fn sep_grammar_int_int_iltc() { grammar_int_body!(F_INT_ILTC, 5) }

    /// separator-position grammar on the INTEGER parser, flags I: strings len <= 5 over {0 7 _}.
    /// @prop C13
    /// @feat format radix_format
    /// @bound format F_I; integer inputs of length <= 5 over {0 7 _}
    /// @fn lexical-util::skip::is_i! (@first/@internal) via peek_1/peek_n and lexical-parse-integer::algorithm
    /// @timeout 1200
    #[cfg_attr(kani, kani::unwind(8))]
    fn sep_grammar_int_i() { grammar_int_body!(F_I, 5) }

    /// separator-position grammar on the INTEGER parser, flags IC: strings len <= 5 over {0 7 _}.
    /// @prop C13
    /// @feat format radix_format
    /// @bound format F_IC; integer inputs of length <= 5 over {0 7 _}
    /// @fn lexical-util::skip::is_ic! (@first/@internal) via peek_1/peek_n and lexical-parse-integer::algorithm
    /// @timeout 1200
    #[cfg_attr(kani, kani::unwind(8))]
    fn sep_grammar_int_ic() { grammar_int_body!(F_IC, 5) }

    /// separator-position grammar on the INTEGER parser, flags L: strings len <= 5 over {0 7 _}.
    /// @prop C13
    /// @feat format radix_format
    /// @bound format F_L; integer inputs of length <= 5 over {0 7 _}
    /// @fn lexical-util::skip::is_l! (@first/@internal) via peek_1/peek_n and lexical-parse-integer::algorithm
    /// @timeout 1200
    #[cfg_attr(kani, kani::unwind(8))]
    fn sep_grammar_int_l() { grammar_int_body!(F_L, 5) }

    /// separator-position grammar on the INTEGER parser, flags LC: strings len <= 5 over {0 7 _}.
    /// @prop C13
    /// @feat format radix_format
    /// @bound format F_LC; integer inputs of length <= 5 over {0 7 _}
    /// @fn lexical-util::skip::is_lc! (@first/@internal) via peek_1/peek_n and lexical-parse-integer::algorithm
    /// @timeout 1200
    #[cfg_attr(kani, kani::unwind(8))]
    fn sep_grammar_int_lc() { grammar_int_body!(F_LC, 5) }

    /// separator-position grammar on the INTEGER parser, flags T: strings len <= 5 over {0 7 _}.
    /// @prop C13
    /// @feat format radix_format
    /// @bound format F_T; integer inputs of length <= 5 over {0 7 _}
    /// @fn lexical-util::skip::is_t! (@first/@internal) via peek_1/peek_n and lexical-parse-integer::algorithm
    /// @timeout 1200
    #[cfg_attr(kani, kani::unwind(8))]
    fn sep_grammar_int_t() { grammar_int_body!(F_T, 5) }

    /// separator-position grammar on the INTEGER parser, flags TC: strings len <= 5 over {0 7 _}.
    /// @prop C13
    /// @feat format radix_format
    /// @bound format F_TC; integer inputs of length <= 5 over {0 7 _}
    /// @fn lexical-util::skip::is_tc! (@first/@internal) via peek_1/peek_n and lexical-parse-integer::algorithm
    /// @timeout 1200
    #[cfg_attr(kani, kani::unwind(8))]
    fn sep_grammar_int_tc() { grammar_int_body!(F_TC, 5) }

    /// separator-position grammar on the INTEGER parser, flags IL: strings len <= 5 over {0 7 _}.
    /// @prop C13
    /// @feat format radix_format
    /// @bound format F_IL; integer inputs of length <= 5 over {0 7 _}
    /// @fn lexical-util::skip::is_il! (@first/@internal) via peek_1/peek_n and lexical-parse-integer::algorithm
    /// @timeout 1200
    #[cfg_attr(kani, kani::unwind(8))]
    fn sep_grammar_int_il() { grammar_int_body!(F_IL, 5) }

    /// separator-position grammar on the INTEGER parser, flags ILC: strings len <= 5 over {0 7 _}.
    /// @prop C13
    /// @feat format radix_format
    /// @bound format F_ILC; integer inputs of length <= 5 over {0 7 _}
    /// @fn lexical-util::skip::is_ilc! (@first/@internal) via peek_1/peek_n and lexical-parse-integer::algorithm
    /// @timeout 1200
    #[cfg_attr(kani, kani::unwind(8))]
    fn sep_grammar_int_ilc() { grammar_int_body!(F_ILC, 5) }

    /// separator-position grammar on the INTEGER parser, flags IT: strings len <= 5 over {0 7 _}.
    /// @prop C13
    /// @feat format radix_format
    /// @bound format F_IT; integer inputs of length <= 5 over {0 7 _}
    /// @fn lexical-util::skip::is_it! (@first/@internal) via peek_1/peek_n and lexical-parse-integer::algorithm
    /// @timeout 1200
    #[cfg_attr(kani, kani::unwind(8))]
    fn sep_grammar_int_it() { grammar_int_body!(F_IT, 5) }

    /// separator-position grammar on the INTEGER parser, flags ITC: strings len <= 5 over {0 7 _}.
    /// @prop C13
    /// @feat format radix_format
    /// @bound format F_ITC; integer inputs of length <= 5 over {0 7 _}
    /// @fn lexical-util::skip::is_itc! (@first/@internal) via peek_1/peek_n and lexical-parse-integer::algorithm
    /// @timeout 1200
    #[cfg_attr(kani, kani::unwind(8))]
    fn sep_grammar_int_itc() { grammar_int_body!(F_ITC, 5) }

    /// separator-position grammar on the INTEGER parser, flags LT: strings len <= 5 over {0 7 _}.
    /// @prop C13
    /// @feat format radix_format
    /// @bound format F_LT; integer inputs of length <= 5 over {0 7 _}
    /// @fn lexical-util::skip::is_lt! (@first/@internal) via peek_1/peek_n and lexical-parse-integer::algorithm
    /// @timeout 1200
    #[cfg_attr(kani, kani::unwind(8))]
    fn sep_grammar_int_lt() { grammar_int_body!(F_LT, 5) }

    /// separator-position grammar on the INTEGER parser, flags LTC: strings len <= 5 over {0 7 _}.
    /// @prop C13
    /// @feat format radix_format
    /// @bound format F_LTC; integer inputs of length <= 5 over {0 7 _}
    /// @fn lexical-util::skip::is_ltc! (@first/@internal) via peek_1/peek_n and lexical-parse-integer::algorithm
    /// @timeout 1200
    #[cfg_attr(kani, kani::unwind(8))]
    fn sep_grammar_int_ltc() { grammar_int_body!(F_LTC, 5) }

    /// separator-position grammar on the INTEGER parser, flags ILT: strings len <= 5 over {0 7 _}.
    /// @prop C13
    /// @feat format radix_format
    /// @bound format F_ILT; integer inputs of length <= 5 over {0 7 _}
    /// @fn lexical-util::skip::is_ilt! (@first/@internal) via peek_1/peek_n and lexical-parse-integer::algorithm
    /// @timeout 1200
    #[cfg_attr(kani, kani::unwind(8))]
    fn sep_grammar_int_ilt() { grammar_int_body!(F_ILT, 5) }

    /// separator-position grammar on the INTEGER parser, flags ILTC: strings len <= 5 over {0 7 _}.
    /// @prop C13
    /// @feat format radix_format
    /// @bound format F_ALL; integer inputs of length <= 5 over {0 7 _}
    /// @fn lexical-util::skip::is_iltc! (@first/@internal) via peek_1/peek_n and lexical-parse-integer::algorithm
    /// @timeout 1200
    #[cfg_attr(kani, kani::unwind(8))]
    fn sep_grammar_int_iltc() { grammar_int_body!(F_ALL, 5) }

    /// partial vs complete tokenizer, flags LTC: strings len <= 3 over {0 7 _ . e x}.
    /// @prop C11 C13~
    /// @tier thorough
    /// @mem 16
    /// @feat format radix_format
    /// @bound format F_LTC; input length <= 3 over {0 7 _ . e x}
    /// @fn lexical-parse-float::parse::{parse_partial_number, parse_complete_number}
    /// @fn lexical-util::skip::is_ltc!
    /// @timeout 1200
    #[cfg_attr(kani, kani::unwind(6))]
    fn sep_partial_complete_ltc() { pc_body!(F_LTC, 3) }

    /// partial vs complete tokenizer, flags LTC: strings len <= 5 over {0 7 _ . e x}.
    /// @prop C11 C13~
    /// @tier thorough
    /// @mem 6
    /// @feat format radix_format
    /// @bound format F_LTC; input length <= 5 over {0 7 _ . e x}
    /// @fn lexical-parse-float::parse::{parse_partial_number, parse_complete_number}
    /// @fn lexical-util::skip::is_ltc!
    /// @timeout 3600
    #[cfg_attr(kani, kani::unwind(8))]
    fn sep_partial_complete_ltc_len5() { pc_body!(F_LTC, 5) }

    /// partial vs complete tokenizer, flags ITC: strings len <= 3 over {0 7 _ . e x}.
    /// @prop C11 C13~
    /// @tier thorough
    /// @mem 16
    /// @feat format radix_format
    /// @bound format F_ITC; input length <= 3 over {0 7 _ . e x}
    /// @fn lexical-parse-float::parse::{parse_partial_number, parse_complete_number}
    /// @fn lexical-util::skip::is_itc!
    /// @timeout 1200
    #[cfg_attr(kani, kani::unwind(6))]
    fn sep_partial_complete_itc() { pc_body!(F_ITC, 3) }

    /// partial vs complete tokenizer, flags ITC: strings len <= 5 over {0 7 _ . e x}.
    /// @prop C11 C13~
    /// @tier thorough
    /// @mem 6
    /// @feat format radix_format
    /// @bound format F_ITC; input length <= 5 over {0 7 _ . e x}
    /// @fn lexical-parse-float::parse::{parse_partial_number, parse_complete_number}
    /// @fn lexical-util::skip::is_itc!
    /// @timeout 3600
    #[cfg_attr(kani, kani::unwind(8))]
    fn sep_partial_complete_itc_len5() { pc_body!(F_ITC, 5) }

    /// partial vs complete tokenizer, flags ILC: strings len <= 3 over {0 7 _ . e x}.
    /// @prop C11 C13~
    /// @tier thorough
    /// @mem 16
    /// @feat format radix_format
    /// @bound format F_ILC; input length <= 3 over {0 7 _ . e x}
    /// @fn lexical-parse-float::parse::{parse_partial_number, parse_complete_number}
    /// @fn lexical-util::skip::is_ilc!
    /// @timeout 1200
    #[cfg_attr(kani, kani::unwind(6))]
    fn sep_partial_complete_ilc() { pc_body!(F_ILC, 3) }

    /// partial vs complete tokenizer, flags ILC: strings len <= 5 over {0 7 _ . e x}.
    /// @prop C11 C13~
    /// @tier thorough
    /// @mem 6
    /// @feat format radix_format
    /// @bound format F_ILC; input length <= 5 over {0 7 _ . e x}
    /// @fn lexical-parse-float::parse::{parse_partial_number, parse_complete_number}
    /// @fn lexical-util::skip::is_ilc!
    /// @timeout 3600
    #[cfg_attr(kani, kani::unwind(8))]
    fn sep_partial_complete_ilc_len5() { pc_body!(F_ILC, 5) }

    /// partial vs complete tokenizer, flags ILTC: strings len <= 3 over {0 7 _ . e x}.
    /// @prop C11 C13~
    /// @tier thorough
    /// @mem 16
    /// @feat format radix_format
    /// @bound format F_ALL; input length <= 3 over {0 7 _ . e x}
    /// @fn lexical-parse-float::parse::{parse_partial_number, parse_complete_number}
    /// @fn lexical-util::skip::is_iltc!
    /// @timeout 1200
    #[cfg_attr(kani, kani::unwind(6))]
    fn sep_partial_complete_iltc() { pc_body!(F_ALL, 3) }

    /// partial vs complete tokenizer, flags ILTC: strings len <= 5 over {0 7 _ . e x}.
    /// @prop C11 C13~
    /// @tier thorough
    /// @mem 6
    /// @feat format radix_format
    /// @bound format F_ALL; input length <= 5 over {0 7 _ . e x}
    /// @fn lexical-parse-float::parse::{parse_partial_number, parse_complete_number}
    /// @fn lexical-util::skip::is_iltc!
    /// @timeout 3600
    #[cfg_attr(kani, kani::unwind(8))]
    fn sep_partial_complete_iltc_len5() { pc_body!(F_ALL, 5) }

    /// partial vs complete tokenizer, flags ILT: strings len <= 3 over {0 7 _ . e x}.
    /// @prop C11 C13~
    /// @tier thorough
    /// @mem 16
    /// @feat format radix_format
    /// @bound format F_ILT; input length <= 3 over {0 7 _ . e x}
    /// @fn lexical-parse-float::parse::{parse_partial_number, parse_complete_number}
    /// @fn lexical-util::skip::is_ilt!
    /// @timeout 1200
    #[cfg_attr(kani, kani::unwind(6))]
    fn sep_partial_complete_ilt() { pc_body!(F_ILT, 3) }

    /// partial vs complete tokenizer, flags ILT: strings len <= 5 over {0 7 _ . e x}.
    /// @prop C11 C13~
    /// @tier thorough
    /// @mem 6
    /// @feat format radix_format
    /// @bound format F_ILT; input length <= 5 over {0 7 _ . e x}
    /// @fn lexical-parse-float::parse::{parse_partial_number, parse_complete_number}
    /// @fn lexical-util::skip::is_ilt!
    /// @timeout 3600
    #[cfg_attr(kani, kani::unwind(8))]
    fn sep_partial_complete_ilt_len5() { pc_body!(F_ILT, 5) }

    /// partial vs complete tokenizer, flags LT: strings len <= 3 over {0 7 _ . e x}.
    /// @prop C11 C13~
    /// @tier thorough
    /// @mem 16
    /// @feat format radix_format
    /// @bound format F_LT; input length <= 3 over {0 7 _ . e x}
    /// @fn lexical-parse-float::parse::{parse_partial_number, parse_complete_number}
    /// @fn lexical-util::skip::is_lt!
    /// @timeout 1200
    #[cfg_attr(kani, kani::unwind(6))]
    fn sep_partial_complete_lt() { pc_body!(F_LT, 3) }

    /// partial vs complete tokenizer, flags LT: strings len <= 5 over {0 7 _ . e x}.
    /// @prop C11 C13~
    /// @tier thorough
    /// @mem 6
    /// @feat format radix_format
    /// @bound format F_LT; input length <= 5 over {0 7 _ . e x}
    /// @fn lexical-parse-float::parse::{parse_partial_number, parse_complete_number}
    /// @fn lexical-util::skip::is_lt!
    /// @timeout 3600
    #[cfg_attr(kani, kani::unwind(8))]
    fn sep_partial_complete_lt_len5() { pc_body!(F_LT, 5) }

    /// separator-position grammar, flags I (all components): strings len <= 4 over {0 7 _ . e}.
    /// @prop C13
    /// @tier thorough
    /// @feat format radix_format
    /// @bound format F_I; input length <= 4 over {0 7 _ . e}
    /// @fn lexical-util::skip::is_i! (@first/@internal) via peek_1/peek_n and lexical-parse-float::parse::parse_number
    /// @timeout 1200
    #[cfg_attr(kani, kani::unwind(7))]
    fn sep_grammar_i() { grammar_body!(F_I, 4) }

    /// separator-position grammar, flags I (all components): strings len <= 5 over {0 7 _ . e}.
    /// @prop C13
    /// @tier deep
    /// @mem 9
    /// @feat format radix_format
    /// @bound format F_I; input length <= 5 over {0 7 _ . e}
    /// @fn lexical-util::skip::is_i! (@first/@internal) via peek_1/peek_n and lexical-parse-float::parse::parse_number
    /// @timeout 3600
    #[cfg_attr(kani, kani::unwind(8))]
    fn sep_grammar_i_len5() { grammar_body!(F_I, 5) }

    /// separator-position grammar, flags IC (all components): strings len <= 4 over {0 7 _ . e}.
    /// @prop C13
    /// @tier thorough
    /// @feat format radix_format
    /// @bound format F_IC; input length <= 4 over {0 7 _ . e}
    /// @fn lexical-util::skip::is_ic! (@first/@internal) via peek_1/peek_n and lexical-parse-float::parse::parse_number
    /// @timeout 1200
    #[cfg_attr(kani, kani::unwind(7))]
    fn sep_grammar_ic() { grammar_body!(F_IC, 4) }

    /// separator-position grammar, flags IC (all components): strings len <= 5 over {0 7 _ . e}.
    /// @prop C13
    /// @tier deep
    /// @mem 9
    /// @feat format radix_format
    /// @bound format F_IC; input length <= 5 over {0 7 _ . e}
    /// @fn lexical-util::skip::is_ic! (@first/@internal) via peek_1/peek_n and lexical-parse-float::parse::parse_number
    /// @timeout 3600
    #[cfg_attr(kani, kani::unwind(8))]
    fn sep_grammar_ic_len5() { grammar_body!(F_IC, 5) }

    /// separator-position grammar, flags L (all components): strings len <= 4 over {0 7 _ . e}.
    /// @prop C13
    /// @tier thorough
    /// @feat format radix_format
    /// @bound format F_L; input length <= 4 over {0 7 _ . e}
    /// @fn lexical-util::skip::is_l! (@first/@internal) via peek_1/peek_n and lexical-parse-float::parse::parse_number
    /// @timeout 1200
    #[cfg_attr(kani, kani::unwind(7))]
    fn sep_grammar_l() { grammar_body!(F_L, 4) }

    /// separator-position grammar, flags L (all components): strings len <= 5 over {0 7 _ . e}.
    /// @prop C13
    /// @tier deep
    /// @mem 9
    /// @feat format radix_format
    /// @bound format F_L; input length <= 5 over {0 7 _ . e}
    /// @fn lexical-util::skip::is_l! (@first/@internal) via peek_1/peek_n and lexical-parse-float::parse::parse_number
    /// @timeout 3600
    #[cfg_attr(kani, kani::unwind(8))]
    fn sep_grammar_l_len5() { grammar_body!(F_L, 5) }

    /// separator-position grammar, flags LC (all components): strings len <= 4 over {0 7 _ . e}.
    /// @prop C13
    /// @tier thorough
    /// @feat format radix_format
    /// @bound format F_LC; input length <= 4 over {0 7 _ . e}
    /// @fn lexical-util::skip::is_lc! (@first/@internal) via peek_1/peek_n and lexical-parse-float::parse::parse_number
    /// @timeout 1200
    #[cfg_attr(kani, kani::unwind(7))]
    fn sep_grammar_lc() { grammar_body!(F_LC, 4) }

    /// separator-position grammar, flags LC (all components): strings len <= 5 over {0 7 _ . e}.
    /// @prop C13
    /// @tier deep
    /// @mem 9
    /// @feat format radix_format
    /// @bound format F_LC; input length <= 5 over {0 7 _ . e}
    /// @fn lexical-util::skip::is_lc! (@first/@internal) via peek_1/peek_n and lexical-parse-float::parse::parse_number
    /// @timeout 3600
    #[cfg_attr(kani, kani::unwind(8))]
    fn sep_grammar_lc_len5() { grammar_body!(F_LC, 5) }

    /// separator-position grammar, flags T (all components): strings len <= 4 over {0 7 _ . e}.
    /// @prop C13
    /// @tier thorough
    /// @feat format radix_format
    /// @bound format F_T; input length <= 4 over {0 7 _ . e}
    /// @fn lexical-util::skip::is_t! (@first/@internal) via peek_1/peek_n and lexical-parse-float::parse::parse_number
    /// @timeout 1200
    #[cfg_attr(kani, kani::unwind(7))]
    fn sep_grammar_t() { grammar_body!(F_T, 4) }

    /// separator-position grammar, flags T (all components): strings len <= 5 over {0 7 _ . e}.
    /// @prop C13
    /// @tier deep
    /// @mem 9
    /// @feat format radix_format
    /// @bound format F_T; input length <= 5 over {0 7 _ . e}
    /// @fn lexical-util::skip::is_t! (@first/@internal) via peek_1/peek_n and lexical-parse-float::parse::parse_number
    /// @timeout 3600
    #[cfg_attr(kani, kani::unwind(8))]
    fn sep_grammar_t_len5() { grammar_body!(F_T, 5) }

    /// separator-position grammar, flags TC (all components): strings len <= 4 over {0 7 _ . e}.
    /// @prop C13
    /// @tier thorough
    /// @feat format radix_format
    /// @bound format F_TC; input length <= 4 over {0 7 _ . e}
    /// @fn lexical-util::skip::is_tc! (@first/@internal) via peek_1/peek_n and lexical-parse-float::parse::parse_number
    /// @timeout 1200
    #[cfg_attr(kani, kani::unwind(7))]
    fn sep_grammar_tc() { grammar_body!(F_TC, 4) }

    /// separator-position grammar, flags TC (all components): strings len <= 5 over {0 7 _ . e}.
    /// @prop C13
    /// @tier deep
    /// @mem 9
    /// @feat format radix_format
    /// @bound format F_TC; input length <= 5 over {0 7 _ . e}
    /// @fn lexical-util::skip::is_tc! (@first/@internal) via peek_1/peek_n and lexical-parse-float::parse::parse_number
    /// @timeout 3600
    #[cfg_attr(kani, kani::unwind(8))]
    fn sep_grammar_tc_len5() { grammar_body!(F_TC, 5) }

    /// separator-position grammar, flags IL (all components): strings len <= 4 over {0 7 _ . e}.
    /// @prop C13
    /// @tier thorough
    /// @feat format radix_format
    /// @bound format F_IL; input length <= 4 over {0 7 _ . e}
    /// @fn lexical-util::skip::is_il! (@first/@internal) via peek_1/peek_n and lexical-parse-float::parse::parse_number
    /// @timeout 1200
    #[cfg_attr(kani, kani::unwind(7))]
    fn sep_grammar_il() { grammar_body!(F_IL, 4) }

    /// separator-position grammar, flags IL (all components): strings len <= 5 over {0 7 _ . e}.
    /// @prop C13
    /// @tier deep
    /// @mem 9
    /// @feat format radix_format
    /// @bound format F_IL; input length <= 5 over {0 7 _ . e}
    /// @fn lexical-util::skip::is_il! (@first/@internal) via peek_1/peek_n and lexical-parse-float::parse::parse_number
    /// @timeout 3600
    #[cfg_attr(kani, kani::unwind(8))]
    fn sep_grammar_il_len5() { grammar_body!(F_IL, 5) }

    /// separator-position grammar, flags ILC (all components): strings len <= 4 over {0 7 _ . e}.
    /// @prop C13
    /// @tier thorough
    /// @feat format radix_format
    /// @bound format F_ILC; input length <= 4 over {0 7 _ . e}
    /// @fn lexical-util::skip::is_ilc! (@first/@internal) via peek_1/peek_n and lexical-parse-float::parse::parse_number
    /// @timeout 1200
    #[cfg_attr(kani, kani::unwind(7))]
    fn sep_grammar_ilc() { grammar_body!(F_ILC, 4) }

    /// separator-position grammar, flags ILC (all components): strings len <= 5 over {0 7 _ . e}.
    /// @prop C13
    /// @tier deep
    /// @mem 9
    /// @feat format radix_format
    /// @bound format F_ILC; input length <= 5 over {0 7 _ . e}
    /// @fn lexical-util::skip::is_ilc! (@first/@internal) via peek_1/peek_n and lexical-parse-float::parse::parse_number
    /// @timeout 3600
    #[cfg_attr(kani, kani::unwind(8))]
    fn sep_grammar_ilc_len5() { grammar_body!(F_ILC, 5) }

    /// separator-position grammar, flags IT (all components): strings len <= 4 over {0 7 _ . e}.
    /// @prop C13
    /// @tier thorough
    /// @feat format radix_format
    /// @bound format F_IT; input length <= 4 over {0 7 _ . e}
    /// @fn lexical-util::skip::is_it! (@first/@internal) via peek_1/peek_n and lexical-parse-float::parse::parse_number
    /// @timeout 1200
    #[cfg_attr(kani, kani::unwind(7))]
    fn sep_grammar_it() { grammar_body!(F_IT, 4) }

    /// separator-position grammar, flags IT (all components): strings len <= 5 over {0 7 _ . e}.
    /// @prop C13
    /// @tier deep
    /// @mem 9
    /// @feat format radix_format
    /// @bound format F_IT; input length <= 5 over {0 7 _ . e}
    /// @fn lexical-util::skip::is_it! (@first/@internal) via peek_1/peek_n and lexical-parse-float::parse::parse_number
    /// @timeout 3600
    #[cfg_attr(kani, kani::unwind(8))]
    fn sep_grammar_it_len5() { grammar_body!(F_IT, 5) }

    /// separator-position grammar, flags ITC (all components): strings len <= 4 over {0 7 _ . e}.
    /// @prop C13
    /// @tier thorough
    /// @feat format radix_format
    /// @bound format F_ITC; input length <= 4 over {0 7 _ . e}
    /// @fn lexical-util::skip::is_itc! (@first/@internal) via peek_1/peek_n and lexical-parse-float::parse::parse_number
    /// @timeout 1200
    #[cfg_attr(kani, kani::unwind(7))]
    fn sep_grammar_itc() { grammar_body!(F_ITC, 4) }

    /// separator-position grammar, flags ITC (all components): strings len <= 5 over {0 7 _ . e}.
    /// @prop C13
    /// @tier deep
    /// @mem 9
    /// @feat format radix_format
    /// @bound format F_ITC; input length <= 5 over {0 7 _ . e}
    /// @fn lexical-util::skip::is_itc! (@first/@internal) via peek_1/peek_n and lexical-parse-float::parse::parse_number
    /// @timeout 3600
    #[cfg_attr(kani, kani::unwind(8))]
    fn sep_grammar_itc_len5() { grammar_body!(F_ITC, 5) }

    /// separator-position grammar, flags LT (all components): strings len <= 4 over {0 7 _ . e}.
    /// @prop C13
    /// @tier thorough
    /// @feat format radix_format
    /// @bound format F_LT; input length <= 4 over {0 7 _ . e}
    /// @fn lexical-util::skip::is_lt! (@first/@internal) via peek_1/peek_n and lexical-parse-float::parse::parse_number
    /// @timeout 1200
    #[cfg_attr(kani, kani::unwind(7))]
    fn sep_grammar_lt() { grammar_body!(F_LT, 4) }

    /// separator-position grammar, flags LT (all components): strings len <= 5 over {0 7 _ . e}.
    /// @prop C13
    /// @tier deep
    /// @mem 9
    /// @feat format radix_format
    /// @bound format F_LT; input length <= 5 over {0 7 _ . e}
    /// @fn lexical-util::skip::is_lt! (@first/@internal) via peek_1/peek_n and lexical-parse-float::parse::parse_number
    /// @timeout 3600
    #[cfg_attr(kani, kani::unwind(8))]
    fn sep_grammar_lt_len5() { grammar_body!(F_LT, 5) }

    /// separator-position grammar, flags LTC (all components): strings len <= 4 over {0 7 _ . e}.
    /// @prop C13
    /// @tier thorough
    /// @feat format radix_format
    /// @bound format F_LTC; input length <= 4 over {0 7 _ . e}
    /// @fn lexical-util::skip::is_ltc! (@first/@internal) via peek_1/peek_n and lexical-parse-float::parse::parse_number
    /// @timeout 1200
    #[cfg_attr(kani, kani::unwind(7))]
    fn sep_grammar_ltc() { grammar_body!(F_LTC, 4) }

    /// separator-position grammar, flags LTC (all components): strings len <= 5 over {0 7 _ . e}.
    /// @prop C13
    /// @tier deep
    /// @mem 9
    /// @feat format radix_format
    /// @bound format F_LTC; input length <= 5 over {0 7 _ . e}
    /// @fn lexical-util::skip::is_ltc! (@first/@internal) via peek_1/peek_n and lexical-parse-float::parse::parse_number
    /// @timeout 3600
    #[cfg_attr(kani, kani::unwind(8))]
    fn sep_grammar_ltc_len5() { grammar_body!(F_LTC, 5) }

    /// separator-position grammar, flags ILT (all components): strings len <= 4 over {0 7 _ . e}.
    /// @prop C13
    /// @tier thorough
    /// @feat format radix_format
    /// @bound format F_ILT; input length <= 4 over {0 7 _ . e}
    /// @fn lexical-util::skip::is_ilt! (@first/@internal) via peek_1/peek_n and lexical-parse-float::parse::parse_number
    /// @timeout 1200
    #[cfg_attr(kani, kani::unwind(7))]
    fn sep_grammar_ilt() { grammar_body!(F_ILT, 4) }

    /// separator-position grammar, flags ILT (all components): strings len <= 5 over {0 7 _ . e}.
    /// @prop C13
    /// @tier deep
    /// @mem 9
    /// @feat format radix_format
    /// @bound format F_ILT; input length <= 5 over {0 7 _ . e}
    /// @fn lexical-util::skip::is_ilt! (@first/@internal) via peek_1/peek_n and lexical-parse-float::parse::parse_number
    /// @timeout 3600
    #[cfg_attr(kani, kani::unwind(8))]
    fn sep_grammar_ilt_len5() { grammar_body!(F_ILT, 5) }

    /// separator-position grammar, flags ILTC (all components): strings len <= 4 over {0 7 _ . e}.
    /// @prop C13
    /// @feat format radix_format
    /// @bound format F_ALL; input length <= 4 over {0 7 _ . e}
    /// @fn lexical-util::skip::is_iltc! (@first/@internal) via peek_1/peek_n and lexical-parse-float::parse::parse_number
    /// @timeout 1200
    #[cfg_attr(kani, kani::unwind(7))]
    fn sep_grammar_iltc() { grammar_body!(F_ALL, 4) }

    /// separator-position grammar, flags ILTC (all components): strings len <= 5 over {0 7 _ . e}.
    /// @prop C13
    /// @tier thorough
    /// @mem 9
    /// @feat format radix_format
    /// @bound format F_ALL; input length <= 5 over {0 7 _ . e}
    /// @fn lexical-util::skip::is_iltc! (@first/@internal) via peek_1/peek_n and lexical-parse-float::parse::parse_number
    /// @timeout 3600
    #[cfg_attr(kani, kani::unwind(8))]
    fn sep_grammar_iltc_len5() { grammar_body!(F_ALL, 5) }

    /// internal separators in all components: strings len <= 3 over {0 1 9 _ . e + - a}.
    /// @prop C13 C10
    /// @tier thorough
    /// @mem 18
    /// @feat format radix_format
    /// @bound format F_I (internal, all components); input length <= 3 over {0 1 9 _ . e + - a}
    /// @fn lexical-util::skip::{peek, next, increment_count}[internal] via lexical-parse-float::parse::parse_number
    /// @timeout 1500
    #[cfg_attr(kani, kani::unwind(6))]
    fn sep_internal_len3() { sep_body!(F_I, 3) }

    /// internal separators in all components: strings len <= 4 over {0 1 9 _ . e + - a}.
    /// @prop C13 C10
    /// @tier deep
    /// @mem 18
    /// @feat format radix_format
    /// @bound format F_I (internal, all components); input length <= 4 over {0 1 9 _ . e + - a}
    /// @fn lexical-util::skip::{peek, next, increment_count}[internal] via lexical-parse-float::parse::parse_number
    /// @timeout 3600
    #[cfg_attr(kani, kani::unwind(7))]
    fn sep_internal_len4() { sep_body!(F_I, 4) }

    /// internal separators in all components: strings len <= 6 over {0 1 9 _ . e + - a}.
    /// @prop C13 C10
    /// @tier deep
    /// @mem 8
    /// @feat format radix_format
    /// @bound format F_I (internal, all components); input length <= 6 over {0 1 9 _ . e + - a}
    /// @fn lexical-util::skip::{peek, next, increment_count}[internal] via lexical-parse-float::parse::parse_number
    /// @timeout 5400
    #[cfg_attr(kani, kani::unwind(9))]
    fn sep_internal_len6() { sep_body!(F_I, 6) }

    /// all separator flags (i/l/t/c, all components): strings len <= 3.
    /// @prop C13 C10
    /// @tier thorough
    /// @mem 18
    /// @feat format radix_format
    /// @bound format F_ALL; input length <= 3 over {0 1 9 _ . e + - a}
    /// @fn lexical-util::skip (iltc) via parse_number
    /// @timeout 1500
    #[cfg_attr(kani, kani::unwind(6))]
    fn sep_all_len3() { sep_body!(F_ALL, 3) }

    /// all separator flags (i/l/t/c, all components): strings len <= 4.
    /// @prop C13 C10
    /// @tier deep
    /// @mem 18
    /// @feat format radix_format
    /// @bound format F_ALL; input length <= 4 over {0 1 9 _ . e + - a}
    /// @fn lexical-util::skip (iltc) via parse_number
    /// @timeout 3600
    #[cfg_attr(kani, kani::unwind(7))]
    fn sep_all_len4() { sep_body!(F_ALL, 4) }

    /// all separator flags (i/l/t/c, all components): strings len <= 6.
    /// @prop C13 C10
    /// @tier deep
    /// @mem 8
    /// @feat format radix_format
    /// @bound format F_ALL; input length <= 6 over {0 1 9 _ . e + - a}
    /// @fn lexical-util::skip (iltc) via parse_number
    /// @timeout 5400
    #[cfg_attr(kani, kani::unwind(9))]
    fn sep_all_len6() { sep_body!(F_ALL, 6) }

    /// @tier thorough
    /// separators enabled for the integer component only: d.dddddddd (8 symbolic fraction digits, no separator byte) must
    /// be read exactly as in the separator-free format (the 8-digit fast path must keep the digit counts in sync).
    /// @prop C13 C12
    /// @feat format radix_format
    /// @bound format F_INT_I; inputs of the shape [0-9].[0-9]{8}
    /// @fn lexical-parse-integer::algorithm::try_parse_8digits (digit counting)
    /// @fn lexical-util::skip::{step_by_unchecked, increment_count, current_count}
    /// @fn lexical-parse-float::parse::parse_number (n_after_dot)
    /// @timeout 1800
    #[cfg_attr(kani, kani::unwind(12))]
    fn sep_int_only_long_fraction() {
        let ds: [u8; 9] = any();
        let mut buf = [0u8; 10];
        let mut i = 0;
        while i < 9 { assume(ds[i] >= b'0' && ds[i] <= b'9'); i += 1; }
        buf[0] = ds[0]; buf[1] = b'.';
        let mut j = 1;
        while j < 9 { buf[j + 1] = ds[j]; j += 1; }
        let r = cmp_sep_r2::<F_INT_I>(&buf);
        vcheck!(r.is_ok(), "no separator byte in the input: same result as in the separator-free format");
    }

    /// @tier thorough
    /// separators enabled for the exponent only: 8 symbolic integer digits + '.' + digit.
    /// @prop C13 C12
    /// @feat format radix_format
    /// @bound format F_EXP_I; inputs of the shape [0-9]{8}.[0-9]
    /// @fn lexical-parse-integer::algorithm::try_parse_8digits (digit counting)
    /// @timeout 1800
    #[cfg_attr(kani, kani::unwind(12))]
    fn sep_exp_only_long_integer() {
        let ds: [u8; 9] = any();
        let mut buf = [0u8; 10];
        let mut i = 0;
        while i < 9 { assume(ds[i] >= b'0' && ds[i] <= b'9'); i += 1; }
        let mut j = 0;
        while j < 8 { buf[j] = ds[j]; j += 1; }
        buf[8] = b'.'; buf[9] = ds[8];
        let r = cmp_sep_r2::<F_EXP_I>(&buf);
        vcheck!(r.is_ok(), "no separator byte in the input: same result as in the separator-free format");
    }

    /// contract of the multi-digit step on a contiguous component of a separator format: when 8 (4) digits are consumed at
    /// once, the cursor AND the digit count advance by 8 (4) (Iter::step_by_unchecked contract: the caller counts the digits).
    /// @prop C13 C12 C10
    /// @feat format radix_format
    /// @fn lexical-parse-integer::algorithm::try_parse_8digits
    /// @fn lexical-parse-integer::algorithm::try_parse_4digits
    /// @fn lexical-util::skip::{step_by_unchecked, increment_count, current_count}
    fn sep_multidigit_step_counts() {
        use lexical_parse_integer::algorithm::{try_parse_4digits, try_parse_8digits};
        use lexical_util::iterator::Iter;
        let ds: [u8; 8] = any();
        let mut i = 0;
        while i < 8 { assume(ds[i] >= b'0' && ds[i] <= b'9'); i += 1; }
        // fraction component of F_INT_I has no separator flag => contiguous, but the format as a whole is not
        let mut b = ds.bytes::<F_INT_I>();
        let before = b.current_count();
        let r: Option<u64> = { let mut it = b.fraction_iter(); try_parse_8digits::<u64, _, F_INT_I>(&mut it) };
        vcheck!(r.is_some(), "eight digit bytes are consumed by the 8-digit step");
        vcheck!(b.cursor() == 8, "cursor advanced by 8");
        vcheck!(b.current_count() == before + 8, "digit count advanced by 8 (kept in sync with the cursor)");
        let mut b4 = ds.bytes::<F_INT_I>();
        let before4 = b4.current_count();
        let r4: Option<u32> = { let mut it = b4.fraction_iter(); try_parse_4digits::<u32, _, F_INT_I>(&mut it) };
        vcheck!(r4.is_some() && b4.cursor() == 4 && b4.current_count() == before4 + 4, "4-digit step: cursor and digit count advanced by 4");
    }
}
