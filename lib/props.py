"""Property -> contract units."""
import os

import kunit
import vunit
import rows

TRUSTED_BASE = [
    "Verus 0.2026.09.13 + Z3 (SMT) and its by(compute_only) interpreter",
    "Kani 0.68.0 MIR->GOTO translation, CBMC 6.11 + CaDiCaL, Kani's models of core/alloc",
    "rustc nightly -Zunpretty=expanded macro expansion; textual rewrites R1..R7 of lib/vx.py",
    "vstd specifications of core integer operations (shifts, leading_zeros, wrapping ops)",
]

PROPS = {}


def _vc(name, variables=None, label=None):
    return ("vc", name, variables, label)


JEAIII = [_vc("jeaiii", {"WITH128": "0"}, "jeaiii")]
JEAIII_T = [_vc("jeaiii", {"WITH128": "1"}, "jeaiii+u128")]
WI_RADIX = [_vc("wi_radix", {"T": "u64", "BITS": "64"}, "wi_radix-u64"),
            _vc("wi_radix", {"T": "u32", "BITS": "32"}, "wi_radix-u32"),
            _vc("wi_radix", {"T": "u128", "BITS": "128"}, "wi_radix-u128"),
            _vc("wi_u128", None, "wi_u128")]
WI_COMPACT = [_vc("wi_compact", {"T": t, "BITS": b}, "wi_compact-" + t) for t, b in (("u8", "8"), ("u16", "16"), ("u32", "32"), ("u64", "64"), ("u128", "128"))]
DIV128_Q = [_vc("div128", {"FEATURES": "radix"}, "div128-radix")]
DIV128_T = [_vc("div128", {"FEATURES": "radix"}, "div128-radix"),
            _vc("div128", {"FEATURES": "power-of-two"}, "div128-pow2"),
            _vc("div128", {"FEATURES": ""}, "div128-default")]

FLOAT_THEOREMS = [
    "ASSUMED (not decidable by contracts here): Eisel-Lemire theorem - given exact POWER_OF_FIVE_128 rows and the "
    "error-marker escape, a non-error compute_float result is the correctly rounded value",
    "ASSUMED: Bellerophon error bound (error_is_accurate thresholds) for compact / non-decimal radices",
    "ASSUMED: one IEEE-754 multiply/divide of exactly representable operands is correctly rounded (Clinger fast path)",
]

PROPS["C01"] = dict(
    title="Decimal string-to-float parsing is correctly rounded",
    level_text="Every ingredient the correct-rounding theorems rest on is a discharged obligation: each of the 651 Lemire "
               "rows, every integer power table, every Clinger limit (safety direction), SWAR digit kernels on full "
               "domains. The end-to-end rounding theorems themselves are listed as assumptions.",
    verus_quick=[_vc("pf_lemire_mul"), _vc("pf_bell_err")],
    rows_quick=["pf-lemire-table", "pf-lemire-constants", "pf-int-powers", "pf-limits"],
    assumptions=FLOAT_THEOREMS,
)
PROPS["C02"] = dict(
    title="Float-to-decimal output round-trips exactly and is shortest",
    level_text="Dragonbox ingredients as closed obligations generated from the current source: every cache row (78 + 619) "
               "equals the defining ceiling; every integer-log approximation is exact on every argument reachable from a "
               "finite f32/f64 and keeps the cache index and shift in range; every exponent threshold that skips an exact "
               "test satisfies its defining inequality at every binary exponent; remove_trailing_zeros (f32 and f64) returns "
               "(n, s) with n * 10^s == significand and n % 10 != 0 for every admissible significand (Verus, on the extracted "
               "code: modular-inverse exact-division test, the 10^8 multiply-and-compare test, rotations). The Dragonbox theorem is assumed.",
    verus_quick=JEAIII + [_vc("wf_rtz"), _vc("wf_dbmul")],
    rows_quick=["wf-dragonbox-table", "wf-dragonbox-thresholds", "wf-dragonbox-logs"],
    assumptions=["call-site preconditions of the Dragonbox helpers (1 <= beta < 64, f32: < 32; endpoint shifts non-negative) are "
                 "discharged for the normal interval by the row unit wf-dragonbox-logs; the shorter-interval call sites are not checked",
                 "ASSUMED: Dragonbox theorem (Jeon 2020): with exact cache rows, exact helper arithmetic and correctly "
                 "derived thresholds the result is in the rounding interval, shortest and closest",
                 "ASSUMED: Grisu2 theorem for the `compact` writer"],
)
PROPS["C03"] = dict(
    title="Integer-to-string output is the exact canonical numeral in every radix",
    level_text="Integer writers: Verus contracts on the extracted arithmetic kernels (128-bit division by magic numbers, "
               "all 35 radices) prove quotient/remainder for all n; every radix^2 digit table entry and every step / "
               "divisor constant is a discharged row obligation; Kani proves small-width entry points on the real crates "
               "over their full domains.",
    verus_quick=DIV128_Q + WI_RADIX + WI_COMPACT + JEAIII, verus_thorough=DIV128_T + WI_RADIX + WI_COMPACT + JEAIII_T,
    rows_quick=["wi-digit-tables", "util-step"],
    assumptions=["core::fmt::Display prints the canonical decimal numeral (not verified here)"],
)
PROPS["C04"] = dict(
    title="String-to-integer parsing is exact with exact overflow detection",
    level_text="SWAR validity/combine kernels and digit decoding are proved on their full domains (all words, all radices "
               "<= 10; all bytes x all radices). The complete and partial parsers are compared against a left-to-right "
               "reference scanner on all byte strings up to a stated length (bounded stand-in).",
    assumptions=["unbounded input length is not reached: the parser is a macro over trait iterators outside Verus' subset; "
                 "Kani harnesses bound the length"],
)
PROPS["C05"] = dict(
    title="Non-decimal radix string-to-float parsing is correctly rounded",
    level_text="Per-radix ingredients as row obligations: Clinger limits for all 35 radices (safety direction), every "
               "small/large integer power table. Power-of-two radices additionally have a function contract on "
               "binary()/slow_binary() (result == round-to-nearest-even of ALL digits, symbolic digit strings longer than the "
               "64-bit mantissa) and string-level harnesses against an exact evaluator (all strings up to a length, incl. "
               "subnormal and overflow boundaries, mixed exponent base). Rounding theorems for other radices assumed.",
    rows_quick=["pf-limits", "pf-int-powers"],
    assumptions=FLOAT_THEOREMS,
)
PROPS["C06"] = dict(
    title="Power-of-two radix float output is exact and round-trips",
    level_text="Verus: every entry of the digit-pair tables the writers emit through (radix 2..36, row obligations), the "
               "radix-generic integer writer the shifted mantissa goes through (wi_radix u64). Kani harnesses on the real "
               "float writers: the written bytes are evaluated exactly (digits in the mantissa radix, exponent digits in the "
               "exponent radix, exponent base) and equal mantissa * 2^exponent taken from the float's bits - quick: every f32 "
               "of one binade per instantiation (incl. all subnormals for 16/2); thorough: EVERY finite f32 per radix / "
               "exponent-base instantiation and the hex-float write -> parse round trip.",
    rows_quick=["wi-digit-tables"],
    verus_quick=[WI_RADIX[0]],
    assumptions=["instantiated formats only (FORMAT is a const generic): radix 2/4/8/16/32 same-base, 16/2, 16/4, 8/2; "
                 "max/min_significant_digits unset (the property is about default output)"],
)
PROPS["C09"] = dict(
    title="Writers honour the documented buffer bound and never access memory outside it",
    level_text="Integer writers: every unchecked table/buffer index of the radix writer and every index of the jeaiii "
               "writer is an in-bounds obligation discharged by Verus for all values (given count == ndigits, itself "
               "proved), with a frame postcondition (bytes beyond the returned length unchanged); Kani checks pointer "
               "validity on the real unsafe code for the 8/16-bit types in all radices with a guard region behind the "
               "caller's slice. Float writers: for every finite f32 and a family of tight options, writing into a buffer of "
               "exactly buffer_size_const bytes neither panics nor writes outside it (Kani reports every reachable panic); "
               "the power-of-two writers are run into a guarded buffer for every finite f32.",
    verus_quick=WI_RADIX + JEAIII, verus_thorough=WI_RADIX + JEAIII_T,
    assumptions=["float writers: option families are instantiated (min_significant_digits 58..60, breaks -6..-1/1..9); f64 and "
                 "the generic-radix writer only through the native sweep (developer aid, not counted)"],
)
PROPS["C10"] = dict(
    title="Parsers are total",
    level_text="Every parser harness is also a totality check on the real code (no panic, no failed pointer check, "
               "unwinding assertions, indices <= len) for all byte strings up to the stated length.",
    assumptions=[],
)
PROPS["C11"] = dict(
    title="Partial and complete parsers agree",
    category="other",
    level_text="BOUNDED ONLY (never counted as proved): relational Kani contract harnesses on the same symbolic input - complete Ok(v) "
               "<=> partial Ok((v, len)), and partial Ok((v, n)) => complete(prefix n) == Ok(v) - for all byte strings up to the stated "
               "length, for integers, the float tokenizer (also under six digit-separator formats) and the special-value matcher. "
               "The parsers are macros over trait iterators outside Verus' subset, so no unbounded obligation exists for this property.",
    assumptions=[],
)
PROPS["C12"] = dict(
    title="Number-format syntax flags accept exactly the documented grammar",
    category="other",
    level_text="BOUNDED ONLY (never counted as proved): the float tokenizer is compared with a reference grammar written from the flag documentation, for an "
               "instantiated list of flag combinations (FORMAT is a const generic) on all strings over the number "
               "alphabet up to a stated length: same accept/reject, consumed count, mantissa/exponent value and digit slices.",
    assumptions=["bounded: instantiated format list and input length; integer-parser flags (leading zeros, base prefix) not covered yet"],
)
PROPS["C13"] = dict(
    title="Digit separators never change a value and are accepted only where enabled",
    level_text="Relational contracts between a separator format F and its separator-free counterpart F0 on the real tokenizer: "
               "(R1) an input accepted under F is accepted with the same value under F0 once the separators are deleted; "
               "(R2) an input without separator bytes is treated identically by F and F0; (R3) the complete tokenizer accepts a string "
               "exactly when every separator run stands in a position (leading / internal / trailing, single / consecutive) that the "
               "component's flags enable - for all 14 flag combinations. Bounded: instantiated formats, input length, digit templates.",
    assumptions=["bounded: format list (14 uniform flag combinations + 4 per-component ones), input length <= 4..6, digit templates"],
)
PROPS["C14"] = dict(
    title="Float write options control digits and notation",
    verus_quick=[_vc("wf_round"), _vc("wf_bintrunc")],
    level_text="Verus proves, on the extracted real code and for digit strings of ANY length, that truncate_and_round_decimal "
               "leaves exactly the digit string rounded to max_significant_digits - half-to-even under Round, toward zero under "
               "Truncate, with the carry case reported - and that round_up is 'digit string + 1'. The decimal emit functions (scientific / positive / negative exponent) and the shared rounding helpers are "
               "checked on the real code against an oracle that RE-READS the bytes with the reference tokenizer: exact "
               "rational value == default digits rounded half-even (or truncated) to max_significant_digits, carry moves "
               "the exponent, at least min_significant_digits unless trimmed, '.0' removed only by trim_floats, exponent "
               "notation only from the scientific writer. Bounded in mantissa digits / exponent / digit options.",
    assumptions=["Kani part bounded: mantissas up to 4-5 digits, |sci_exp| <= 6, digit options <= 7; notation choice (break points) checked at emit level for "
                 "min_significant_digits 58..59 and for every finite f32 in the thorough tier; binary/hex/radix digit rounding and compact not covered",
                 "Verus unit wf_round: the two Options getters are passed as parameters (R6); `slice.iter().any(|&x| x != K)` is replaced by the verified "
                 "helper vx_any_ne (R10: semantics of Iterator::any on slices trusted)"],
)
PROPS["C17"] = dict(
    title="The allocating lexical API equals lexical-core and only emits ASCII",
    level_text="to_string == lexical_core::write byte for byte and every byte < 0x80 for every u8/i8 (i16 thorough) value; "
               "lexical::parse* == lexical_core::parse* on all byte strings up to length 3; emit-function harnesses check ASCII output.",
    assumptions=["floats and wider integers only through the emit/integer-writer contracts (ASCII postconditions); to_string_with_options not covered"],
)
PROPS["C08"] = dict(
    title="What lexical writes, lexical parses back",
    level_text="Integers: parse(write(v)) == v on the real crates for every u8/i8 (i16 thorough) value, plus the two specs meet: "
               "writers emit numeral(v) (C03 contracts) and the parser reads every [+-]digits string exactly (C04). Floats: the "
               "emit functions' output is accepted in full by the reference grammar of the same format with the emitted value "
               "(bounded), and the real tokenizer equals that grammar (C12, bounded).",
    assumptions=["composition through the reference grammar; float value-level round trip inherits C01/C02 assumptions; non-default formats/options not covered"],
)
PROPS["C15"] = dict(
    title="Special values and signed zero are handled consistently",
    level_text="Special-string recognition (complete and partial) equals a reference prefix matcher for default, custom "
               "(prefix-related), None, case-sensitive and no_special configurations on all byte strings up to a stated "
               "length; the Lemire kernel never produces the NaN encoding (exp == max implies mant == 0) for any (q, w).",
    assumptions=["option strings are an instantiated list (they must be 'static); writer side not yet covered"],
)
PROPS["C19"] = dict(
    title="Lossy float parsing changes only precision",
    level_text="compute_float(q, w, lossy=true) equals the exact call wherever that is conclusive (all q, w; thorough tier); "
               "representation contract with symbolic lossy (quick). The <= 1 ULP bound in inconclusive cases is assumed "
               "(Eisel-Lemire error analysis).",
    verus_quick=[_vc("pf_bell_err")],
    assumptions=FLOAT_THEOREMS + ["the tokenizer does not take the lossy flag at all (parse_number has no access to it) - by inspection of its signature: it receives &Options but the C11/C12 harness contract fixes its result independently of lossy"],
)
PROPS["C16"] = dict(
    title="Cargo features are additive",
    level_text="The same specification (canonical numeral / reference scanner) is discharged in each feature set, hence "
               "results are equal across sets; inherits the bounds of C03/C04.",
    verus_quick=DIV128_T + WI_COMPACT + [_vc("pf_bell_err")],
    assumptions=["two feature sets cannot be linked into one program; equality is by 'equal to the same spec'"],
)
PROPS["C18"] = dict(
    title="Format and options validation is sound and complete",
    level_text="format_error_impl(f) == Success <=> documented constraints for all 2^128 packed formats per feature set "
               "(loop-free, complete); build_strict panics iff invalid; rebuild round trip; every flag setter changes "
               "exactly its own flag.",
    assumptions=["format_error_impl reached through the add-only cfg(lexical_verif) hook"],
)

KANI_BUCKETS = 4
RANK = {"quick": 0, "thorough": 1, "deep": 2}


def build_jobs(prop, tier, wd, only=None):
    P = PROPS[prop]
    jobs = []
    vlist = list(P.get("verus_quick", []))
    if tier in ("thorough", "deep"):
        vlist = list(P.get("verus_thorough", vlist))
    for kind, name, variables, label in vlist:
        label = label or name
        if only and only not in label:
            continue
        jobs.append((label, (lambda n=name, v=variables, l=label: vunit.run_vc_unit(n, wd, v, label=l)), "verus"))
    rlist = list(P.get("rows_quick", []))
    if tier in ("thorough", "deep"):
        rlist = list(P.get("rows_thorough", rlist))
    for rname in rlist:
        if only and only not in rname:
            continue
        jobs.append((rname, (lambda n=rname: rows.run(n, wd)), "verus"))
    # kani harnesses by metadata
    hs = kunit.load_harnesses()
    groups = {}
    for h in hs.values():
        if prop not in h.props:
            continue
        # tiers: quick < thorough < deep (deep = unbounded-cost harnesses, `./check <id> --tier deep`, not registered)
        need = max(RANK[h.tier], 1 if prop in h.thorough_only else 0)
        if need > RANK.get(tier, 0):
            continue
        if only and only not in h.name:
            continue
        feats = h.feats if tier in ("thorough", "deep") else h.feats[:h.quickfeats]
        for fs in feats:
            # memory-heavy harnesses (observed peak >= 8 GB, @mem) run in their own, less parallel group
            groups.setdefault((fs, "heavy" if h.mem_gb >= 8 else ""), []).append(h)
    # groups of different feature sets (own target directory each) run concurrently, at most KANI_BUCKETS at a time;
    # the 12 CBMC jobs (44 GB budget) are divided between the buckets in proportion to their number of harnesses
    sizes = {}
    for (fs, cls), lst in groups.items():
        sizes[fs] = sizes.get(fs, 0) + len(lst)
    nb = max(1, min(KANI_BUCKETS, len(sizes)))
    tot = sum(sizes.values()) or 1
    # every bucket gets at least min(2, its size) jobs, the rest of the 13 in proportion to the number of harnesses
    alloc = {fs: min(2, n) for fs, n in sizes.items()}
    spare = max(0, 13 - sum(alloc.values()))
    for fs, n in sizes.items():
        alloc[fs] = min(n, alloc[fs] + (spare * n) // tot)
    for (fs, cls), lst in sorted(groups.items()):
        label = "kani[%s]%s" % (fs, "/" + cls if cls else "")
        per = 12 if len(sizes) == 1 else max(1, min(len(lst), alloc[fs]))
        if cls:
            share = 44 if len(sizes) == 1 else max(8, (44 * sizes[fs]) // tot)
            per = max(1, min(per, int(share // max(h.mem_gb for h in lst))))
        jobs.append((label, (lambda l=label, x=lst, f=fs, j=per: kunit.run_group(l, x, f, jobs=j)), "kani:" + fs))
    return jobs
