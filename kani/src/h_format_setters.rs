//! U6 / C18: builder setters (only exist with the `format` feature).
#![cfg(feature = "format")]
use crate::spec;
use crate::vk::{any, assume, cover};
use crate::vcheck;
use lexical_util::format::NumberFormatBuilder;

macro_rules! setter_case {
    ($f:ident, $v:ident, $set:ident, $get:ident, $bit:expr) => {{
        let b = NumberFormatBuilder::rebuild($f).$set($v);
        vcheck!(b.$get() == $v, "getter reflects setter");
        let want = if $v { $f | (1u128 << $bit) } else { $f & !(1u128 << $bit) };
        vcheck!(b.build_unchecked() == spec::format_norm(want), "setter changes exactly its own flag");
    }};
}

crate::harnesses! {
    /// every boolean setter changes exactly its own flag and its getter reflects it (symbolic base format).
    /// @prop C18
    /// @feat format radix_format
    /// @fn lexical-util::format_builder::NumberFormatBuilder::{31 flag setters and getters}
    fn format_setters_frame() {
        let f: u128 = any();
        let v: bool = any();
        let which: u8 = any();
        match which {
            0 => setter_case!(f, v, required_integer_digits, get_required_integer_digits, 0),
            1 => setter_case!(f, v, required_fraction_digits, get_required_fraction_digits, 1),
            2 => setter_case!(f, v, required_exponent_digits, get_required_exponent_digits, 2),
            3 => setter_case!(f, v, required_mantissa_digits, get_required_mantissa_digits, 3),
            4 => setter_case!(f, v, no_positive_mantissa_sign, get_no_positive_mantissa_sign, 4),
            5 => setter_case!(f, v, required_mantissa_sign, get_required_mantissa_sign, 5),
            6 => setter_case!(f, v, no_exponent_notation, get_no_exponent_notation, 6),
            7 => setter_case!(f, v, no_positive_exponent_sign, get_no_positive_exponent_sign, 7),
            8 => setter_case!(f, v, required_exponent_sign, get_required_exponent_sign, 8),
            9 => setter_case!(f, v, no_exponent_without_fraction, get_no_exponent_without_fraction, 9),
            10 => setter_case!(f, v, no_special, get_no_special, 10),
            11 => setter_case!(f, v, case_sensitive_special, get_case_sensitive_special, 11),
            12 => setter_case!(f, v, no_integer_leading_zeros, get_no_integer_leading_zeros, 12),
            13 => setter_case!(f, v, no_float_leading_zeros, get_no_float_leading_zeros, 13),
            14 => setter_case!(f, v, required_exponent_notation, get_required_exponent_notation, 14),
            15 => setter_case!(f, v, case_sensitive_exponent, get_case_sensitive_exponent, 15),
            32 => setter_case!(f, v, integer_internal_digit_separator, get_integer_internal_digit_separator, 32),
            33 => setter_case!(f, v, fraction_internal_digit_separator, get_fraction_internal_digit_separator, 33),
            34 => setter_case!(f, v, exponent_internal_digit_separator, get_exponent_internal_digit_separator, 34),
            35 => setter_case!(f, v, integer_leading_digit_separator, get_integer_leading_digit_separator, 35),
            36 => setter_case!(f, v, fraction_leading_digit_separator, get_fraction_leading_digit_separator, 36),
            37 => setter_case!(f, v, exponent_leading_digit_separator, get_exponent_leading_digit_separator, 37),
            38 => setter_case!(f, v, integer_trailing_digit_separator, get_integer_trailing_digit_separator, 38),
            39 => setter_case!(f, v, fraction_trailing_digit_separator, get_fraction_trailing_digit_separator, 39),
            40 => setter_case!(f, v, exponent_trailing_digit_separator, get_exponent_trailing_digit_separator, 40),
            41 => setter_case!(f, v, integer_consecutive_digit_separator, get_integer_consecutive_digit_separator, 41),
            42 => setter_case!(f, v, fraction_consecutive_digit_separator, get_fraction_consecutive_digit_separator, 42),
            43 => setter_case!(f, v, exponent_consecutive_digit_separator, get_exponent_consecutive_digit_separator, 43),
            44 => setter_case!(f, v, special_digit_separator, get_special_digit_separator, 44),
            _ => {},
        }
    }
}
