//! Developer aid: validate the is_rne_f32 oracle against std's correctly rounded f32 parser.
use lexverif::h_lemire::{is_rne_f32, pow10};
fn main() {
    let mut bad = 0u64; let mut n = 0u64;
    let mut x: u64 = 88172645463325252;
    for q in -12i64..=12 {
        for i in 0..40000u64 {
            x ^= x << 13; x ^= x >> 7; x ^= x << 17;
            let w = if i < 3000 { i + 1 } else { (x % ((1 << 20) - 1)) + 1 };
            let s = format!("{w}e{q}");
            let f: f32 = s.parse().unwrap();
            let bits = f.to_bits();
            let (mant, exp) = ((bits & 0x7fffff) as u64, (bits >> 23) as i32);
            let (num, den) = if q >= 0 { (w as u128 * pow10(q as u32), 1u128) } else { (w as u128, pow10((-q) as u32)) };
            n += 1;
            if !is_rne_f32(mant, exp, num, den) { bad += 1; if bad < 10 { println!("oracle rejects std result for {s}"); } }
            // and it must reject the neighbours
            let up = f32::from_bits(bits + 1).to_bits();
            if is_rne_f32((up & 0x7fffff) as u64, (up >> 23) as i32, num, den) { bad += 1; if bad < 10 { println!("oracle accepts successor for {s}"); } }
            if bits > 0 { let dn = bits - 1; if is_rne_f32((dn & 0x7fffff) as u64, (dn >> 23) as i32, num, den) { bad += 1; if bad < 10 { println!("oracle accepts predecessor for {s}"); } } }
        }
    }
    println!("{n} cases, {bad} oracle errors");
}
