//! Developer aid: validates the reference of h_mantissa (parse_mantissa with a small max_digits) natively, all digit strings.
use lexverif::h_mantissa::*;
fn main() {
    let (mut n, mut bad) = (0u64, 0u64);
    for max in [1usize, 3, 9, 10] {
        for il in 0..=5usize { for fl in 0..=5usize { for has_frac in [false, true] {
            let tot = 10u64.pow((il + fl) as u32);
            let stride = if tot > 2_000_000 { 37 } else { 1 };
            let mut code = 0u64;
            while code < tot {
                let mut c = code; let mut ib = [b'0'; 5]; let mut fb = [b'0'; 5];
                for k in 0..il { ib[k] = b'0' + (c % 10) as u8; c /= 10; }
                for k in 0..fl { fb[k] = b'0' + (c % 10) as u8; c /= 10; }
                n += 1;
                if let Err(e) = cmp_parse_mantissa(&ib[..il], if has_frac { Some(&fb[..fl]) } else { None }, max) {
                    bad += 1; if bad < 10 { println!("max={max} {:?}.{:?} frac={has_frac}: {e}", String::from_utf8_lossy(&ib[..il]), String::from_utf8_lossy(&fb[..fl])); }
                }
                code += stride;
            }
        }}}
    }
    // long inputs: the 8-digit scan of round_up_nonzero
    for (i, f) in [("123", "000000000000000001"), ("1230000000000000", "0000000000000000"), ("123000000000000000000004", ""), ("000123", "0000000000000000000")] {
        n += 1;
        if let Err(e) = cmp_parse_mantissa(i.as_bytes(), Some(f.as_bytes()), 3) { bad += 1; println!("{i}.{f}: {e}"); }
    }
    println!("sweep_mantissa: {n} cases, bad = {bad}");
    std::process::exit(if bad > 0 { 1 } else { 0 });
}
