//! WF8 / C15 writer side: NaN / infinities / signed zero.
use crate::vk::{any, assume, cover};
use crate::vcheck;
use lexical_write_float::{Options, ToLexicalWithOptions};

fn eq(a: &[u8], b: &[u8]) -> bool {
    if a.len() != b.len() { return false; }
    let mut i = 0;
    while i < a.len() { if a[i] != b[i] { return false; } i += 1; }
    true
}

/// expected bytes for special values and zeros under `nan` / `inf` strings; None = not a special/zero value (no claim)
pub fn cmp_special_write_f32(bits: u32, o: &Options, nan: &[u8], inf: &[u8]) -> Result<bool, &'static str> {
    const F: u128 = lexical_util::format::STANDARD;
    let v = f32::from_bits(bits);
    let neg = bits >> 31 == 1;
    let mut buf = [0xAAu8; 96];
    if v.is_nan() {
        let out = v.to_lexical_with_options::<F>(&mut buf[..80], o);
        if !eq(out, nan) { return Err("NaN (any payload, any sign bit) is written as exactly the configured NaN string, never with a minus sign"); }
    } else if v.is_infinite() {
        let out = v.to_lexical_with_options::<F>(&mut buf[..80], o);
        if neg { if out.len() != inf.len() + 1 || out[0] != b'-' || !eq(&out[1..], inf) { return Err("-inf is written as '-' + the configured infinity string"); } }
        else if !eq(out, inf) { return Err("+inf is written as exactly the configured infinity string"); }
    } else if v == 0.0 {
        let out = v.to_lexical_with_options::<F>(&mut buf[..80], o);
        if neg { if !eq(out, b"-0.0") { return Err("negative zero is written as -0.0"); } } else if !eq(out, b"0.0") { return Err("positive zero is written as 0.0"); }
    } else { return Ok(false); }
    if buf[80] != 0xAA || buf[95] != 0xAA { return Err("frame: nothing written beyond the slice"); }
    Ok(true)
}
pub fn cmp_special_write_f64(bits: u64, o: &Options, nan: &[u8], inf: &[u8]) -> Result<bool, &'static str> {
    const F: u128 = lexical_util::format::STANDARD;
    let v = f64::from_bits(bits);
    let neg = bits >> 63 == 1;
    let mut buf = [0xAAu8; 96];
    if v.is_nan() {
        let out = v.to_lexical_with_options::<F>(&mut buf[..80], o);
        if !eq(out, nan) { return Err("NaN (any payload, any sign bit) is written as exactly the configured NaN string, never with a minus sign"); }
    } else if v.is_infinite() {
        let out = v.to_lexical_with_options::<F>(&mut buf[..80], o);
        if neg { if out.len() != inf.len() + 1 || out[0] != b'-' || !eq(&out[1..], inf) { return Err("-inf is written as '-' + the configured infinity string"); } }
        else if !eq(out, inf) { return Err("+inf is written as exactly the configured infinity string"); }
    } else if v == 0.0 {
        let out = v.to_lexical_with_options::<F>(&mut buf[..80], o);
        if neg { if !eq(out, b"-0.0") { return Err("negative zero is written as -0.0"); } } else if !eq(out, b"0.0") { return Err("positive zero is written as 0.0"); }
    } else { return Ok(false); }
    if buf[80] != 0xAA || buf[95] != 0xAA { return Err("frame: nothing written beyond the slice"); }
    Ok(true)
}

const OPT_CUSTOM: Options = Options::builder().nan_string(Some(b"nan")).inf_string(Some(b"Infinity")).build_unchecked();
const OPT_NONAN: Options = Options::builder().nan_string(None).build_unchecked();
const OPT_NOINF: Options = Options::builder().inf_string(None).build_unchecked();

crate::harnesses! {
    /// every NaN / infinity bit pattern of f32 (any payload, any sign), default options.
    /// @prop C15 C09 C17
    /// @feat default radix_format
    /// @fn lexical-write-float::write::WriteFloat::write_float (sign handling, special dispatch)
    /// @fn lexical-write-float::write::{write_nan, write_inf, write_special}
    /// @timeout 900
    #[cfg_attr(kani, kani::unwind(12))]
    fn write_special_default() {
        // the exponent field is concrete (all ones) so that the finite-float writers are pruned syntactically
        let m32: u32 = any();
        let b32: u32 = 0x7F80_0000 | (m32 & 0x807F_FFFF);
        let o = Options::new();
        let r = cmp_special_write_f32(b32, &o, b"NaN", b"inf");
        vcheck!(matches!(r, Ok(true)), "f32 specials are written as documented");
        cover(f32::from_bits(b32).is_nan() && b32 >> 31 == 1);
    }

    /// every NaN / infinity bit pattern of f64 (any payload, any sign), default options.
    /// @prop C15 C09 C17
    /// @tier thorough
    /// @feat default radix_format
    /// @fn lexical-write-float::write::WriteFloat::write_float (sign handling, special dispatch)
    /// @timeout 3600
    #[cfg_attr(kani, kani::unwind(12))]
    fn write_special_default_f64() {
        let m64: u64 = any();
        let b64: u64 = 0x7FF0_0000_0000_0000 | (m64 & 0x800F_FFFF_FFFF_FFFF);
        let o = Options::new();
        let r = cmp_special_write_f64(b64, &o, b"NaN", b"inf");
        vcheck!(matches!(r, Ok(true)), "f64 specials are written as documented");
    }

    /// signed zeros (the four concrete values): '-0.0' <-> negative zero.
    /// @prop C15 C08
    /// @feat default radix_format
    /// @fn lexical-write-float::write::WriteFloat::write_float (sign of zero)
    /// @timeout 900
    #[cfg_attr(kani, kani::unwind(12))]
    fn write_signed_zeros() {
        let o = Options::new();
        vcheck!(matches!(cmp_special_write_f32(0, &o, b"NaN", b"inf"), Ok(true)), "+0.0f32 is written as 0.0");
        vcheck!(matches!(cmp_special_write_f32(0x8000_0000, &o, b"NaN", b"inf"), Ok(true)), "-0.0f32 is written as -0.0");
        vcheck!(matches!(cmp_special_write_f64(0, &o, b"NaN", b"inf"), Ok(true)), "+0.0f64 is written as 0.0");
        vcheck!(matches!(cmp_special_write_f64(1 << 63, &o, b"NaN", b"inf"), Ok(true)), "-0.0f64 is written as -0.0");
    }

    /// custom nan / inf strings.
    /// @prop C15 C17
    /// @feat default radix_format
    /// @fn lexical-write-float::write::{write_nan, write_inf, write_special}
    /// @timeout 900
    #[cfg_attr(kani, kani::unwind(12))]
    fn write_special_custom_strings() {
        let m32: u32 = any();
        let b32: u32 = 0x7F80_0000 | (m32 & 0x807F_FFFF);
        vcheck!(OPT_CUSTOM.is_valid(), "custom options are valid");
        let r = cmp_special_write_f32(b32, &OPT_CUSTOM, b"nan", b"Infinity");
        vcheck!(matches!(r, Ok(true)), "f32 specials are written as the configured strings");
    }

    /// writing NaN when the NaN string is disabled panics (no bytes are emitted).
    /// @prop C15
    /// @feat default radix_format
    /// @fn lexical-write-float::write::write_special (disabled string)
    /// @timeout 900
    #[cfg_attr(kani, kani::unwind(12))]
    #[cfg_attr(kani, kani::should_panic)]
    fn write_nan_disabled_panics() {
        const F: u128 = lexical_util::format::STANDARD;
        let b32: u32 = any();
        assume(f32::from_bits(b32).is_nan());
        let mut buf = [0u8; 80];
        let _ = f32::from_bits(b32).to_lexical_with_options::<F>(&mut buf, &OPT_NONAN);
    }

    /// writing an infinity when the infinity string is disabled panics.
    /// @prop C15
    /// @feat default radix_format
    /// @fn lexical-write-float::write::write_special (disabled string)
    /// @timeout 900
    #[cfg_attr(kani, kani::unwind(12))]
    #[cfg_attr(kani, kani::should_panic)]
    fn write_inf_disabled_panics() {
        const F: u128 = lexical_util::format::STANDARD;
        let b32: u32 = any();
        assume(f32::from_bits(b32).is_infinite());
        let mut buf = [0u8; 80];
        let _ = f32::from_bits(b32).to_lexical_with_options::<F>(&mut buf, &OPT_NOINF);
    }
}
