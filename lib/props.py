"""Property -> contract units."""
import os

import kunit
import vunit
import rows

TRUSTED_BASE = [
    "Verus 0.2026.09.13 + Z3 (SMT) and its by(compute_only) interpreter",
    "Kani 0.68.0 MIR->GOTO translation, CBMC 6.11 + CaDiCaL, Kani's models of core/alloc",
    "rustc nightly -Zunpretty=expanded macro expansion; textual rewrites R1..R7 of lib/vx.py",
    "vstd specifications of core integer operations (shifts, leading_zeros, wrapping ops)",
]

PROPS = {}


def _vc(name, variables=None, label=None):
    return ("vc", name, variables, label)


PROPS["C03"] = dict(
    level_text="Integer writers: Verus contracts on the extracted arithmetic kernels (128-bit division, digit counts, "
               "digit loops) prove output == canonical numeral for all values; Kani proves the small-width entry points "
               "and wrappers on the real crates over their full domains; per-radix tables row by row.",
    verus_quick=[_vc("div128", {"FEATURES": "radix"}, "div128-radix")],
    verus_thorough=[_vc("div128", {"FEATURES": "radix"}, "div128-radix"),
                    _vc("div128", {"FEATURES": "power-of-two"}, "div128-pow2"),
                    _vc("div128", {"FEATURES": ""}, "div128-default")],
    rows_quick=[],
    assumptions=["core::fmt::Display prints the canonical decimal numeral (not verified here)"],
)


def build_jobs(prop, tier, wd, only=None):
    P = PROPS[prop]
    jobs = []
    vlist = list(P.get("verus_quick", []))
    if tier == "thorough":
        vlist = list(P.get("verus_thorough", vlist))
    for kind, name, variables, label in vlist:
        label = label or name
        if only and only not in label:
            continue
        jobs.append((label, (lambda n=name, v=variables, l=label: vunit.run_vc_unit(n, wd, v, label=l)), "verus"))
    rlist = list(P.get("rows_quick", []))
    if tier == "thorough":
        rlist = list(P.get("rows_thorough", rlist))
    for rname in rlist:
        if only and only not in rname:
            continue
        jobs.append((rname, (lambda n=rname: rows.run(n, wd)), "verus"))
    # kani harnesses by metadata
    hs = kunit.load_harnesses()
    groups = {}
    for h in hs.values():
        if prop not in h.props:
            continue
        if h.tier == "thorough" and tier != "thorough":
            continue
        if only and only not in h.name:
            continue
        feats = h.feats if tier == "thorough" else h.feats[:2]
        for fs in feats:
            groups.setdefault(fs, []).append(h)
    for fs, lst in sorted(groups.items()):
        label = "kani[%s]" % fs
        jobs.append((label, (lambda l=label, x=lst, f=fs: kunit.run_group(l, x, f, jobs=12)), "kani"))
    return jobs
