//! PF8 / C05: power-of-two radix float parsing is exact (bit-exact shifts, halfway detection, sticky slow path).
#![cfg(feature = "power-of-two")]
use crate::spec;
use crate::vk::{any, assume, cover};
use crate::vcheck;
use lexical_parse_float::{FromLexicalWithOptions, Options};

/// exact round-to-nearest-even of (m * 2^e2) to f64 bits, for m < 2^127 and results in the normal range
pub fn rne_f64_bits(m: u128, e2: i32) -> Option<u64> {
    if m == 0 { return Some(0); }
    let bl = 128 - m.leading_zeros() as i32;            // bit length
    let exp = e2 + bl - 1;                              // unbiased exponent of the leading bit
    if exp < -1022 || exp > 1023 { return None; }
    let (mut q, round_up) = if bl <= 53 { (m << (53 - bl), false) } else {
        let sh = (bl - 53) as u32;
        let q = m >> sh;
        let rem = m & ((1u128 << sh) - 1);
        let half = 1u128 << (sh - 1);
        (q, rem > half || (rem == half && q & 1 == 1))
    };
    let mut e = exp;
    if round_up { q += 1; if q == (1u128 << 53) { q >>= 1; e += 1; } }
    if e > 1023 { return None; }
    Some((((e + 1023) as u64) << 52) | ((q as u64) & ((1u64 << 52) - 1)))
}

/// Compare the real parser on "D.DDDD…" (digits in radix 2^k, no exponent) with the exact oracle.
pub fn cmp_bin<const F: u128>(digits: &[u8], nint: usize, bits_per_digit: u32) -> Result<(), &'static str> {
    let mut buf = [0u8; 96];
    let mut n = 0;
    let mut m: u128 = 0;
    let mut i = 0;
    while i < digits.len() {
        if i == nint { buf[n] = b'.'; n += 1; }
        buf[n] = spec::digit_char(digits[i] as u32); n += 1;
        m = (m << bits_per_digit) | digits[i] as u128;
        i += 1;
    }
    let nfrac = (digits.len() - nint) as i32;
    let want = match rne_f64_bits(m, -(nfrac * bits_per_digit as i32)) { Some(w) => w, None => return Ok(()) };
    // '^' as the exponent character: 'e' is a digit for radix >= 15
    let opts = match Options::builder().exponent(b'^').build() { Ok(o) => o, Err(_) => return Err("options with exponent '^' are valid") };
    match f64::from_lexical_with_options::<F>(&buf[..n], &opts) {
        Ok(v) => if v.to_bits() == want { Ok(()) } else { Err("parsed value == round-to-nearest-even of the exact digit string") },
        Err(_) => Err("a plain digit string of the radix is accepted"),
    }
}

/// exact round-to-nearest-even of m * 2^p (m any u128) to IEEE bits with `mb` explicit mantissa bits and exponent range
/// [emin, emax] (f64: 52, -1022, 1023; f32: 23, -126, 127); overflow gives infinity, underflow subnormals / zero.
pub fn rne_bits(m: u128, p: i64, mb: u32, emin: i64, emax: i64) -> u64 {
    if m == 0 { return 0; }
    let bl = 128 - m.leading_zeros() as i64;
    let inf = ((2 * emax + 1) as u64) << mb;
    let exp = p + bl - 1;
    if exp > emax { return inf; }
    // quantum exponent of the result: normal => exp - mb, subnormal => emin - mb
    let qe = if exp < emin { emin - mb as i64 } else { exp - mb as i64 };
    let sh = qe - p;                      // bits to drop (negative: shift left)
    let q: u128 = if sh <= 0 { m << ((-sh) as u32) } else if sh > 127 { 0 } else {
        let sh = sh as u32;
        let q = m >> sh;
        let rem = m & ((1u128 << sh) - 1);
        let half = 1u128 << (sh - 1);
        if rem > half || (rem == half && q & 1 == 1) { q + 1 } else { q }
    };
    // encode: q < 2^(mb+1) + 1; contiguous encoding makes the carry cases come out right
    let (q, e) = if q >> (mb + 1) != 0 { (q >> 1, qe + 1) } else { (q, qe) };
    if q >> mb == 0 { return q as u64; }                          // subnormal (only when qe == emin - mb)
    let biased = e + mb as i64 - emin + 1;
    if biased > emax - emin + 1 { return inf; }
    ((biased as u64) << mb) | ((q as u64) & ((1u64 << mb) - 1))
}

/// Parser vs exact oracle for strings of a power-of-two radix format (mantissa radix `radix`, exponent base `base`,
/// exponent digits in `eradix`, exponent character '^'): whenever the reference grammar derives the string, the complete
/// parser accepts it with the correctly rounded value.
pub fn cmp_parse_pow2<const F: u128>(s: &[u8], radix: u32, base: u32, eradix: u32) -> Result<(), &'static str> {
    let (neg, m, p) = match crate::h_float_wbin::eval_pow2(s, radix, base, eradix) { Ok(v) => v, Err(_) => return Ok(()) };
    let opts = match Options::builder().exponent(b'^').build() { Ok(o) => o, Err(_) => return Err("options with exponent '^' are valid") };
    let want = rne_bits(m, p, 52, -1022, 1023) | ((neg as u64) << 63);
    match f64::from_lexical_with_options::<F>(s, &opts) {
        Ok(v) => if v.to_bits() == want { Ok(()) } else { Err("parsed value == correctly rounded exact value of the string") },
        Err(_) => Err("a string derivable by the float grammar of the format is accepted"),
    }
}
pub fn cmp_parse_pow2_f32<const F: u128>(s: &[u8], radix: u32, base: u32, eradix: u32) -> Result<(), &'static str> {
    let (neg, m, p) = match crate::h_float_wbin::eval_pow2(s, radix, base, eradix) { Ok(v) => v, Err(_) => return Ok(()) };
    let opts = match Options::builder().exponent(b'^').build() { Ok(o) => o, Err(_) => return Err("options with exponent '^' are valid") };
    let want = rne_bits(m, p, 23, -126, 127) as u32 | ((neg as u32) << 31);
    match f32::from_lexical_with_options::<F>(s, &opts) {
        Ok(v) => if v.to_bits() == want { Ok(()) } else { Err("parsed value == correctly rounded exact value of the string") },
        Err(_) => Err("a string derivable by the float grammar of the format is accepted"),
    }
}

macro_rules! pstr_body {
    ($F:expr, $radix:expr, $base:expr, $eradix:expr, $L:expr, $hi:expr) => {{
        const F: u128 = $F;
        let bytes: [u8; $L] = any();
        let len: usize = any();
        assume(len <= $L);
        let mut i = 0;
        while i < $L {
            let c = bytes[i];
            assume(c == b'0' || c == b'1' || c == $hi || c == b'.' || c == b'^' || c == b'-');
            i += 1;
        }
        let r = cmp_parse_pow2::<F>(&bytes[..len], $radix, $base, $eradix);
        vcheck!(r.is_ok(), "power-of-two radix string parses to the correctly rounded exact value");
        cover(len == $L);
    }};
}

/// Function-level contract of `binary` / `slow_binary`.
/// Precondition (= postcondition of parse_number for > u64_step significant digits, checked end to end by the
/// `parse_bin_*` harnesses): `mantissa` is the value of the first `u64_step(radix)` significant digits, `exponent`
/// is minus the number of fraction digits among them, `many_digits` is set, the slices hold all digits.
/// Postcondition: the result is the correctly rounded (nearest, ties to even) value of ALL digits.
pub fn cmp_bin_fn<const F: u128>(digits: &[u8], bits_per_digit: u32, radix: u32) -> Result<(), &'static str> {
    use lexical_parse_float::float::extended_to_float;
    use lexical_parse_float::number::Number;
    let step = lexical_util::step::u64_step(radix);
    if digits.len() <= step || digits.len() > 70 { return Err("harness shape: more digits than fit the mantissa"); }
    let mut chars = [0u8; 72];
    let mut m_all: u128 = 0; let mut m_step: u64 = 0;
    let mut i = 0;
    while i < digits.len() {
        chars[i] = spec::digit_char(digits[i] as u32);
        if m_all >> (127 - bits_per_digit) != 0 { return Err("harness shape: exact value fits 127 bits"); }
        m_all = (m_all << bits_per_digit) | digits[i] as u128;
        if i < step { m_step = (m_step << bits_per_digit) | digits[i] as u64; }
        i += 1;
    }
    let num = Number { exponent: -((step - 1) as i64), mantissa: m_step, is_negative: false, many_digits: true,
                       integer: &chars[..1], fraction: Some(&chars[1..digits.len()]) };
    let want = rne_bits(m_all, -((digits.len() as i64 - 1) * bits_per_digit as i64), 52, -1022, 1023);
    let mut fp = lexical_parse_float::binary::binary::<f64, F>(&num, false);
    if fp.exp < 0 {
        // inconclusive marker: exactly halfway on the truncated mantissa => the slow path decides
        fp = lexical_parse_float::binary::slow_binary::<f64, F>(num);
    }
    let got: f64 = extended_to_float(fp);
    if got.to_bits() != want { return Err("binary / slow_binary == round-to-nearest-even of all digits"); }
    Ok(())
}

macro_rules! bin_fn_body {
    ($radix:expr, $k:expr, $N:expr) => {{
        const F: u128 = crate::radix_format($radix);
        let ds: [u8; $N] = any();
        let mut i = 0;
        while i < $N { assume((ds[i] as u32) < $radix); i += 1; }
        assume(ds[0] != 0);
        let r = cmp_bin_fn::<F>(&ds, $k, $radix);
        vcheck!(r.is_ok(), "binary / slow_binary: correctly rounded value of all digits (function contract)");
    }};
}

macro_rules! bin_body {
    ($radix:expr, $k:expr, $N:expr) => { bin_body!($radix, $k, $N, 1) };
    ($radix:expr, $k:expr, $N:expr, $free_from:expr) => {{
        const F: u128 = crate::radix_format($radix);
        let mut ds: [u8; $N] = any();
        let mut i = 0;
        while i < $N { assume((ds[i] as u32) < $radix); i += 1; }
        assume(ds[0] != 0);
        // digits 1..$free_from are fixed to zero (keeps the quick tier small; the thorough tier leaves all free)
        let mut i = 1;
        while i < $free_from { ds[i] = 0; i += 1; }
        let r = cmp_bin::<F>(&ds, 1, $k);
        vcheck!(r.is_ok(), "power-of-two radix parse == exact round-to-nearest-even of the digit string");
    }};
}

crate::harnesses! {
    /// function contract of binary + slow_binary, radix 8, 24 symbolic digits "D.DDD..." (Number built per the stated precondition).
    /// @prop C05
    /// @tier thorough
    /// @feat pow2 radix
    /// @bound radix 8, 24 significant digits (3 more than the 64-bit mantissa holds)
    /// @fn lexical-parse-float::binary::binary
    /// @fn lexical-parse-float::binary::slow_binary
    /// @fn lexical-parse-float::binary::parse_u64_digits
    /// @fn lexical-parse-float::shared::{calculate_power2, calculate_shift, round, round_nearest_tie_even}
    /// @assume Number precondition = parse_number postcondition (checked end to end by parse_bin_r8_24digits, thorough)
    /// @timeout 1800
    #[cfg_attr(kani, kani::unwind(30))]
    fn bin_fn_r8_24digits() { bin_fn_body!(8, 3, 24) }

    /// function contract of binary + slow_binary, radix 32, 15 symbolic digits.
    /// @prop C05
    /// @feat pow2 radix
    /// @bound radix 32, 15 significant digits (3 more than the 64-bit mantissa holds)
    /// @fn lexical-parse-float::binary::binary
    /// @fn lexical-parse-float::binary::slow_binary
    /// @fn lexical-parse-float::binary::parse_u64_digits
    /// @assume Number precondition = parse_number postcondition
    /// @timeout 1800
    #[cfg_attr(kani, kani::unwind(20))]
    fn bin_fn_r32_15digits() { bin_fn_body!(32, 5, 15) }

    /// function contract of binary + slow_binary, radix 16, 19 symbolic digits.
    /// @prop C05
    /// @tier thorough
    /// @feat pow2 radix
    /// @bound radix 16, 19 significant digits
    /// @fn lexical-parse-float::binary::slow_binary
    /// @assume Number precondition = parse_number postcondition
    /// @timeout 3600
    #[cfg_attr(kani, kani::unwind(24))]
    fn bin_fn_r16_19digits() { bin_fn_body!(16, 4, 19) }

    /// function contract of binary + slow_binary, radix 2, 67 symbolic digits.
    /// @prop C05
    /// @tier thorough
    /// @feat pow2 radix
    /// @bound radix 2, 67 significant digits
    /// @fn lexical-parse-float::binary::slow_binary
    /// @assume Number precondition = parse_number postcondition
    /// @timeout 3600
    #[cfg_attr(kani, kani::unwind(72))]
    fn bin_fn_r2_67digits() { bin_fn_body!(2, 1, 67) }

    /// hex-float strings (radix 16, exponent base 2, decimal exponent digits), length <= 6 over {0 1 F . ^ -}.
    /// @prop C05 C06 C08
    /// @feat pow2 radix
    /// @bound format mantissa radix 16 / exponent base 2 / exponent radix 10; input length <= 6 over {0 1 F . ^ -}
    /// @fn lexical-parse-float::parse::parse_complete
    /// @fn lexical-parse-float::number::Number::try_fast_path (applicability)
    /// @fn lexical-parse-float::binary::binary
    /// @fn lexical-parse-float::shared::calculate_power2
    /// @timeout 3000
    #[cfg_attr(kani, kani::unwind(9))]
    fn parse_str_hex16_base2_len6() { pstr_body!(crate::h_float_wbin::mixed_format(16, 2), 16, 2, 10, 6, b'F') }

    /// radix-32 strings, length <= 6 over {0 1 V . ^ -}: includes zero mantissas with large exponents.
    /// @prop C05 C08
    /// @tier thorough
    /// @feat pow2 radix
    /// @bound radix 32; input length <= 6 over {0 1 V . ^ -}
    /// @fn lexical-parse-float::parse::parse_complete
    /// @fn lexical-parse-float::binary::binary
    /// @timeout 3000
    #[cfg_attr(kani, kani::unwind(9))]
    fn parse_str_radix32_len6() { pstr_body!(crate::radix_format(32), 32, 32, 32, 6, b'V') }

    /// radix-2 strings, length <= 7 over {0 1 . ^ -}.
    /// @prop C05 C08
    /// @tier thorough
    /// @feat pow2 radix
    /// @bound radix 2; input length <= 7 over {0 1 . ^ -}
    /// @fn lexical-parse-float::binary::binary
    /// @timeout 3600
    #[cfg_attr(kani, kani::unwind(10))]
    fn parse_str_radix2_len7() { pstr_body!(crate::radix_format(2), 2, 2, 2, 7, b'1') }

    /// radix 8: "D.DDD…" with 24 symbolic digits (more than fit in 64 bits: reaches binary() halfway detection and slow_binary).
    /// @prop C05 C10
    /// @tier deep
    /// @mem 9
    /// @feat pow2 radix
    /// @bound radix 8, inputs of the shape [1-7].[0-7]{23}
    /// @fn lexical-parse-float::binary::binary
    /// @fn lexical-parse-float::binary::slow_binary
    /// @fn lexical-parse-float::binary::parse_u64_digits
    /// @fn lexical-parse-float::parse::parse_number (many_digits second pass)
    /// @timeout 3600
    #[cfg_attr(kani, kani::unwind(30))]
    fn parse_bin_r8_24digits() { bin_body!(8, 3, 24) }

    /// radix 16: 18 symbolic hex digits.
    /// @prop C05 C10
    /// @tier deep
    /// @mem 9
    /// @feat pow2 radix
    /// @bound radix 16, inputs of the shape [1-F].[0-F]{17}
    /// @fn lexical-parse-float::binary::slow_binary
    /// @timeout 3600
    #[cfg_attr(kani, kani::unwind(24))]
    fn parse_bin_r16_18digits() { bin_body!(16, 4, 18) }

    /// radix 32: 14 symbolic digits.
    /// @prop C05 C10
    /// @tier deep
    /// @mem 9
    /// @feat pow2 radix
    /// @bound radix 32, inputs of the shape [1-V].[0-V]{13}
    /// @fn lexical-parse-float::binary::slow_binary
    /// @timeout 3600
    #[cfg_attr(kani, kani::unwind(20))]
    fn parse_bin_r32_14digits() { bin_body!(32, 5, 14) }

    /// radix 8, halfway band: "D." + 16 zero digits + 7 symbolic digits (bits 49..69 after the point): truncated-tail
    /// handling of the slow path, and agreement between the slow path's digit budget and `Number::exponent`.
    /// @prop C05 C10
    /// @tier thorough
    /// @mem 9
    /// @feat pow2 radix
    /// @bound radix 8, inputs of the shape [1-7].0{16}[0-7]{7}
    /// @fn lexical-parse-float::binary::binary
    /// @fn lexical-parse-float::binary::slow_binary
    /// @fn lexical-parse-float::binary::parse_u64_digits
    /// @timeout 1800
    #[cfg_attr(kani, kani::unwind(30))]
    fn parse_bin_r8_halfway_band() { bin_body!(8, 3, 24, 17) }

    /// radix 32, halfway band: "D." + 9 zero digits + 4 symbolic digits.
    /// @prop C05 C10
    /// @tier thorough
    /// @mem 9
    /// @feat pow2 radix
    /// @bound radix 32, inputs of the shape [1-V].0{9}[0-V]{4}
    /// @fn lexical-parse-float::binary::slow_binary
    /// @timeout 1800
    #[cfg_attr(kani, kani::unwind(20))]
    fn parse_bin_r32_halfway_band() { bin_body!(32, 5, 14, 10) }

    /// radix 2/4/8/16/32 short inputs (<= 8 digits): exact path `binary()` only.
    /// @prop C05 C10
    /// @tier thorough
    /// @mem 9
    /// @feat pow2 radix
    /// @bound radix 8, inputs of the shape [1-7].[0-7]{7}
    /// @fn lexical-parse-float::binary::binary
    /// @timeout 1800
    #[cfg_attr(kani, kani::unwind(14))]
    fn parse_bin_r8_8digits() { bin_body!(8, 3, 8) }
}
