//! WF5/WF6: decimal float emit functions (digit truncation/rounding, padding, trimming, notation layout).
//! The oracle RE-READS the bytes with the reference tokenizer and compares exact rational values and digit counts.
#![cfg(not(feature = "compact"))]
use crate::spec;
use crate::vk::{any, assume, cover};
use crate::vcheck;
use core::num::NonZeroUsize;
use lexical_util::extended_float::ExtendedFloat;
use lexical_write_float::algorithm::{write_float_negative_exponent, write_float_positive_exponent, write_float_scientific};
use lexical_write_float::{Options, RoundMode};

fn pow10(n: u32) -> u128 { let mut p = 1u128; let mut i = 0; while i < n { p *= 10; i += 1; } p }
fn ndig(mut v: u64) -> u32 { let mut n = 1; while v >= 10 { v /= 10; n += 1; } n }

/// expected (digits value, digit count, carried) after limiting `mant` (nd digits) to `max` significant digits
pub fn round_ref(mant: u64, max: Option<usize>, truncate: bool) -> (u64, u32, bool) {
    let nd = ndig(mant);
    let max = match max { Some(m) if (m as u32) < nd => m as u32, _ => return (mant, nd, false) };
    let k = nd - max;
    let p = pow10(k) as u64;
    let q = mant / p;
    let r = mant % p;
    if truncate { return (q, max, false); }
    let half = p / 2;
    let up = r > half || (r == half && q % 2 == 1);
    if !up { return (q, max, false); }
    let q1 = q + 1;
    if q1 == pow10(max) as u64 { (1, 1, true) } else { (q1, max, false) }
}

/// kind: 0 scientific, 1 positive exponent (sci_exp >= 0), 2 negative exponent (sci_exp < 0)
pub fn cmp_emit(kind: u8, mant: u64, sci_exp: i32, max: Option<usize>, min: Option<usize>, truncate: bool, trim: bool) -> Result<(), &'static str> {
    cmp_emit_fmt::<{ lexical_util::format::STANDARD }>(kind, mant, sci_exp, max, min, truncate, trim)
}

/// the same oracle under an arbitrary decimal format: the bytes must be derivable by the reference grammar OF THAT FORMAT
pub fn cmp_emit_fmt<const F: u128>(kind: u8, mant: u64, sci_exp: i32, max: Option<usize>, min: Option<usize>, truncate: bool, trim: bool) -> Result<(), &'static str> {
    let mut b = Options::builder().trim_floats(trim);
    b = b.max_significant_digits(max.and_then(NonZeroUsize::new)).min_significant_digits(min.and_then(NonZeroUsize::new));
    b = b.round_mode(if truncate { RoundMode::Truncate } else { RoundMode::Round });
    let opts = b.build_unchecked();
    let mut buf = [0xAAu8; 96];
    let fp = ExtendedFloat { mant, exp: sci_exp - (ndig(mant) as i32 - 1) };
    let n = match kind {
        0 => write_float_scientific::<f64, F>(&mut buf[..90], fp, sci_exp, &opts),
        1 => write_float_positive_exponent::<f64, F>(&mut buf[..90], fp, sci_exp, &opts),
        _ => write_float_negative_exponent::<f64, F>(&mut buf[..90], fp, sci_exp, &opts),
    };
    if n > 90 { return Err("cursor within the buffer"); }
    if buf[90] != 0xAA || buf[95] != 0xAA { return Err("frame: nothing written beyond the slice"); }
    let out = &buf[..n];
    let mut i = 0;
    while i < n { if out[i] >= 0x80 { return Err("output is ASCII"); } i += 1; }
    // re-read
    let t = match spec::tok_ref(out, F, b'.', b'e') { Some(t) => t, None => return Err("output is not derivable by the float grammar") };
    if t.end != n { return Err("output has trailing bytes the grammar does not consume"); }
    if (kind == 0) != t.has_exp { return Err("exponent notation used iff scientific writer"); }
    let (rv, rn, carried) = round_ref(mant, max, truncate);
    let e_ref = sci_exp + carried as i32;               // scientific exponent of the rounded value
    // exact value comparison: out_mant * 10^out_exp == rv * 10^(e_ref - (rn - 1))
    let (a, ea) = (t.mantissa as u128, t.exponent as i64);
    let (c, ec) = (rv as u128, (e_ref - (rn as i32 - 1)) as i64);
    let lo = if ea < ec { ea } else { ec };
    if ea - lo > 30 || ec - lo > 30 { return Err("exponent spread too large for the oracle"); }
    if a * pow10((ea - lo) as u32) != c * pow10((ec - lo) as u32) { return Err("value written == default digits rounded to max_significant_digits"); }
    // digit counts: significant digits = digits from the first non-zero one
    let total = (t.n_int + t.n_frac) as u32;
    let lead_zeros = if a == 0 { total } else { total - ndig(t.mantissa) };
    let sig = total - lead_zeros;
    // at most max significant digits: implied by the value equality above (rv has rn <= max digits); zero padding below is not "more digits"
    let trimmed_integer = trim && !t.has_dot;
    if let Some(m) = min { if m > 0 && !trimmed_integer && sig < m as u32 { return Err("fewer significant digits than min_significant_digits"); } }
    if trim && !t.has_dot && t.n_frac != 0 { return Err("trim consistency"); }
    if !trim && !t.has_dot { return Err("a decimal point is written unless trim_floats"); }
    Ok(())
}

crate::harnesses! {
    /// scientific / positional emit functions: mantissa < 10^5 without trailing zero, |sci_exp| <= 6, max/min digits <= 7.
    /// @prop C14 C09 C08 C17
    /// @tier thorough
    /// @feat default radix_format
    /// @bound mantissa < 10^5, -6 <= sci_exp <= 6, max/min_significant_digits in 0..=7 (0 = unset), both round modes, trim on/off
    /// @fn lexical-write-float::algorithm::write_float_scientific
    /// @fn lexical-write-float::algorithm::write_float_positive_exponent
    /// @fn lexical-write-float::algorithm::write_float_negative_exponent
    /// @fn lexical-write-float::shared::truncate_and_round_decimal
    /// @fn lexical-write-float::shared::round_up
    /// @fn lexical-write-float::shared::min_exact_digits
    /// @fn lexical-write-float::shared::write_exponent
    /// @timeout 3000
    #[cfg_attr(kani, kani::unwind(12))]
    fn emit_decimal_small() {
        let kind: u8 = any();
        let mant: u64 = any();
        let sci: i32 = any();
        let max: usize = any();
        let min: usize = any();
        let truncate: bool = any();
        let trim: bool = any();
        assume(kind <= 2 && mant >= 1 && mant < 100000 && mant % 10 != 0 && sci >= -6 && sci <= 6 && max <= 7 && min <= 7);
        assume((kind == 1) == (sci >= 0 && kind != 0) || kind == 0);
        assume(kind != 2 || sci < 0);
        assume(kind != 1 || sci >= 0);
        assume(max == 0 || min == 0 || min <= max);
        let r = cmp_emit(kind, mant, sci, if max == 0 { None } else { Some(max) }, if min == 0 { None } else { Some(min) }, truncate, trim);
        vcheck!(r.is_ok(), "emitted bytes re-read to the default digits rounded to max digits, with padding/trim/notation as configured");
        cover(kind == 0 && max == 2);
    }

    /// rounding core through the scientific writer: 2-4 digit mantissas cut to 1..3 digits, both round modes (ties, carries).
    /// @prop C14 C08
    /// @feat default radix_format
    /// @bound mantissa in 11..=9999 (no trailing zero), sci_exp = 0, max_significant_digits 1..=3, no min, no trim
    /// @fn lexical-write-float::shared::truncate_and_round_decimal
    /// @fn lexical-write-float::shared::round_up
    /// @fn lexical-write-float::algorithm::write_float_scientific
    /// @timeout 1800
    #[cfg_attr(kani, kani::unwind(10))]
    fn emit_rounding_ties_small() {
        let mant: u64 = any();
        let max: usize = any();
        let truncate: bool = any();
        assume(mant >= 11 && mant <= 9999 && mant % 10 != 0 && max >= 1 && max <= 3);
        let r = cmp_emit(0, mant, 0, Some(max), None, truncate, false);
        vcheck!(r.is_ok(), "digits == default digits rounded half-even (or truncated) to max_significant_digits; carry moves the exponent");
        cover(mant == 125 && max == 2);
    }

    /// positional writers (positive and negative exponent) with rounding, padding and trimming on 1-2 digit mantissas (the every-change subset of emit_positional_small).
    /// @prop C14 C08 C09
    /// @feat default radix_format
    /// @bound mantissa < 100 (no trailing zero), -2 <= sci_exp <= 2, max/min significant digits 0..=3, both round modes, trim on/off
    /// @fn lexical-write-float::algorithm::write_float_positive_exponent
    /// @fn lexical-write-float::algorithm::write_float_negative_exponent
    /// @fn lexical-write-float::shared::min_exact_digits
    /// @timeout 1200
    #[cfg_attr(kani, kani::unwind(10))]
    fn emit_positional_tiny() {
        let mant: u64 = any();
        let sci: i32 = any();
        let max: usize = any();
        let min: usize = any();
        let truncate: bool = any();
        let trim: bool = any();
        assume(mant >= 1 && mant < 100 && mant % 10 != 0 && sci >= -2 && sci <= 2 && max <= 3 && min <= 3);
        assume(max == 0 || min == 0 || min <= max);
        let kind = if sci >= 0 { 1 } else { 2 };
        let r = cmp_emit(kind, mant, sci, if max == 0 { None } else { Some(max) }, if min == 0 { None } else { Some(min) }, truncate, trim);
        vcheck!(r.is_ok(), "positional output re-reads to the rounded digits, with padding / trimming as configured");
        cover(trim && sci >= 0);
    }

    /// positional writers (positive and negative exponent) with rounding, padding and trimming on 1-3 digit mantissas.
    /// @prop C14 C08 C09
    /// @tier thorough
    /// @feat default radix_format
    /// @bound mantissa < 1000 (no trailing zero), -3 <= sci_exp <= 3, max/min significant digits 0..=4, both round modes, trim on/off
    /// @fn lexical-write-float::algorithm::write_float_positive_exponent
    /// @fn lexical-write-float::algorithm::write_float_negative_exponent
    /// @fn lexical-write-float::shared::min_exact_digits
    /// @timeout 2400
    #[cfg_attr(kani, kani::unwind(10))]
    fn emit_positional_small() {
        let mant: u64 = any();
        let sci: i32 = any();
        let max: usize = any();
        let min: usize = any();
        let truncate: bool = any();
        let trim: bool = any();
        assume(mant >= 1 && mant < 1000 && mant % 10 != 0 && sci >= -3 && sci <= 3 && max <= 4 && min <= 4);
        assume(max == 0 || min == 0 || min <= max);
        let kind = if sci >= 0 { 1 } else { 2 };
        let r = cmp_emit(kind, mant, sci, if max == 0 { None } else { Some(max) }, if min == 0 { None } else { Some(min) }, truncate, trim);
        vcheck!(r.is_ok(), "positional output re-reads to the rounded digits, with padding / trimming as configured");
        cover(trim && sci >= 0);
    }
}


#[cfg(feature = "format")]
pub mod fmt {
    use super::*;
    use lexical_util::format::NumberFormatBuilder as B;
    pub const F_REQ_EXP_SIGN: u128 = B::new().required_exponent_sign(true).required_exponent_notation(true).build_strict();
    pub const F_REQ_MANT_SIGN: u128 = B::new().required_mantissa_sign(true).build_strict();
    crate::harnesses! {
        /// scientific writer under a format that requires the exponent sign (and exponent notation): what is written is
        /// derivable by the grammar of the same format (write -> parse agreement on syntax), exponent 0 included.
        /// @prop C08 C12 C14
        /// @feat format radix_format
        /// @bound mantissa in 1..=999 (no trailing zero), -3 <= sci_exp <= 3, format required_exponent_sign + required_exponent_notation
        /// @fn lexical-write-float::shared::{write_exponent, write_exponent_sign}
        /// @fn lexical-write-float::algorithm::write_float_scientific
        /// @timeout 1500
        #[cfg_attr(kani, kani::unwind(10))]
        fn emit_required_exponent_sign() {
            let mant: u64 = any();
            let sci: i32 = any();
            assume(mant >= 1 && mant < 1000 && mant % 10 != 0 && sci >= -3 && sci <= 3);
            let r = cmp_emit_fmt::<F_REQ_EXP_SIGN>(0, mant, sci, None, None, false, false);
            vcheck!(r.is_ok(), "scientific output is derivable by the grammar of its own format (exponent sign required)");
            cover(sci == 0);
        }
    }
}
