"""Row / constant obligation generators (closed facts copied from the current source)."""
import os
import re

from core import REPO
import vunit

GENERATORS = {}


def gen(name):
    def deco(f):
        GENERATORS[name] = f
        return f
    return deco


def run(name, wd):
    facts, functions, prelude = GENERATORS[name]()
    return vunit.run_rows_unit(name, wd, facts, prelude=prelude, functions=functions)
