"""Contract unit U1/U2: lexical-util mul.rs::mulhi and div128.rs.

Generated per feature set because the set of `u128_divrem_N` wrappers that exist
(and the dispatcher's match arms) depends on `radix` / `power-of-two`.
The numeric literals of each wrapper are *copied from the current source text*
into that wrapper's `requires`-side facts; nothing is recomputed in Python.
"""
import re

PRELUDE = r'''
use vstd::arithmetic::power2::*;
use vstd::arithmetic::div_mod::*;
use vstd::arithmetic::mul::*;
use vstd::bits::*;
use vstd::std_specs::bits::*;

pub open spec fn P64() -> nat { 0x1_0000_0000_0000_0000 }
pub open spec fn P128() -> nat { (0x1_0000_0000_0000_0000nat * 0x1_0000_0000_0000_0000nat) as nat }
pub open spec fn pw(b: nat, e: nat) -> nat decreases e {
    if e == 0 { 1 } else if e % 2 == 0 { let h = pw(b, e / 2); h * h } else { b * pw(b, (e - 1) as nat) }
}

// Granlund-Montgomery validity of (factor, shr) for divisor d over all n < 2^128.
pub open spec fn gm_valid(d: nat, factor: nat, shr: nat) -> bool {
    d > 0 && shr < 64 && P128() * pow2(shr) <= factor * d && factor * d <= P128() * pow2(shr) + pow2(shr)
}
// validity of the "n < fast" 64-bit shortcut
pub open spec fn fast_valid(d: nat, fast: nat, fast_shr: nat) -> bool {
    fast_shr < 64 && d % pow2(fast_shr) == 0 && d >= pow2(fast_shr) && fast <= P64() * pow2(fast_shr)
}

proof fn lemma_pw2(e: nat) ensures pw(2, e) == pow2(e) decreases e
{
    reveal(pow2);
    if e == 0 { lemma2_to64(); }
    else if e % 2 == 0 { lemma_pw2(e / 2); lemma_pow2_adds(e / 2, e / 2); assert(e / 2 + e / 2 == e); }
    else { lemma_pw2((e - 1) as nat); lemma_pow2_adds(1, (e - 1) as nat); lemma2_to64(); }
}
proof fn lemma_gm(n: nat, d: nat, m: nat, s: nat)
    requires gm_valid(d, m, s), n < P128()
    ensures (n * m) / (P128() * pow2(s)) == n / d
{
    let k = P128() * pow2(s);
    lemma_pow2_pos(s);
    assert(k > 0) by(nonlinear_arith) requires k == P128() * pow2(s), pow2(s) > 0, P128() > 0;
    let q = n / d; let r = n % d;
    lemma_fundamental_div_mod(n as int, d as int);
    assert(n == d * q + r);
    let e = (m * d - k) as nat;
    assert(e <= pow2(s));
    assert(n * m * d == n * k + n * e) by(nonlinear_arith) requires m * d == k + e;
    assert(q * k * d <= n * m * d) by(nonlinear_arith) requires n * m * d == n * k + n * e, n == d * q + r, r >= 0, e >= 0, k > 0;
    assert(q * k <= n * m) by(nonlinear_arith) requires q * k * d <= n * m * d, d > 0;
    assert(n * e < k) by(nonlinear_arith) requires n < P128(), e <= pow2(s), k == P128() * pow2(s), pow2(s) > 0;
    assert(n * m * d < (q + 1) * k * d) by(nonlinear_arith) requires n * m * d == n * k + n * e, n * e < k, n == d * q + r, r < d, k > 0;
    assert(n * m < (q + 1) * k) by(nonlinear_arith) requires n * m * d < (q + 1) * k * d, d > 0;
    let rem = (n * m - q * k) as int;
    assert((q + 1) * k == q * k + k) by(nonlinear_arith);
    assert(0 <= rem < k);
    assert((n*m) as int == (k as int) * (q as int) + rem) by(nonlinear_arith) requires n * m == q * k + rem;
    lemma_fundamental_div_mod_converse((n * m) as int, k as int, q as int, rem);
}

// floor(floor(n / 2^a) / (d / 2^a)) == floor(n / d) when 2^a | d
proof fn lemma_fast(n: nat, d: nat, a: nat)
    requires d % pow2(a) == 0, d >= pow2(a)
    ensures (n / pow2(a)) / (d / pow2(a)) == n / d
{
    lemma_pow2_pos(a);
    let p = pow2(a);
    let dd = d / p;
    lemma_fundamental_div_mod(d as int, p as int);
    assert(d == p * dd);
    assert(dd > 0) by(nonlinear_arith) requires d == p * dd, d >= p, p > 0;
    lemma_div_denominator(n as int, p as int, dd as int);
}

proof fn lemma_rem_fits(n: nat, d: nat)
    requires 0 < d < P64()
    ensures n - (n / d) * d == n % d, n % d < P64(), (n / d) * d <= n
{
    lemma_fundamental_div_mod(n as int, d as int);
    assert((n / d) * d == d * (n / d)) by(nonlinear_arith);
}

// ((n*m) / 2^128) >> s == (n*m) / (2^128 * 2^s)
proof fn lemma_mulhi_shr(n: u128, m: u128, s: u32)
    requires s < 64
    ensures ({ let h = ((n as nat * m as nat) / P128()) as u128;
               h as nat == (n as nat * m as nat) / P128() && (h >> s) as nat == (n as nat * m as nat) / (P128() * pow2(s as nat)) })
{
    let x = n as nat * m as nat;
    assert(x < P128() * P128()) by(nonlinear_arith) requires x == n as nat * m as nat, (n as nat) < P128(), (m as nat) < P128();
    assert(x / P128() < P128()) by(nonlinear_arith) requires x < P128() * P128(), P128() > 0;
    let h = (x / P128()) as u128;
    lemma_u128_shr_is_div(h, s as u128);
    lemma_pow2_pos(s as nat);
    lemma_div_denominator(x as int, P128() as int, pow2(s as nat) as int);
}

proof fn lemma_mask_mod(lo: u64, mask: u64, shr: nat)
    requires 0 < shr < 64, mask as nat == pow2(shr) - 1
    ensures (mask & lo) as nat == (lo as nat) % pow2(shr)
{
    lemma_u64_low_bits_mask_is_mod(lo, shr);
    lemma_pow2_strictly_increases(shr, 64); lemma2_to64();
    assert(low_bits_mask(shr) as u64 == mask);
    assert((mask & lo) == (lo & mask)) by(bit_vector);
}
'''

MULHI = r'''
fn mul::mulhi
  sub /<Full, Half>/ => //
  sub /where\s+Full: UnsignedInteger, Half: UnsignedInteger/ => //
  sub* /\bFull\b/ => /u128/
  sub* /Half::BITS as i32/ => /64/
  sub* /as_cast\(Half::MAX\)/ => /(u64::MAX as u128)/
  spec <<<
    ensures ret as nat == (x as nat * y as nat) / P128()
>>>
  after /let y0 = / <<<
    proof {
        assert(x1 == x / 0x1_0000_0000_0000_0000 && x0 == x % 0x1_0000_0000_0000_0000) by(bit_vector)
            requires x1 == x >> 64, x0 == x & 0xffff_ffff_ffff_ffffu128;
        assert(y1 == y / 0x1_0000_0000_0000_0000 && y0 == y % 0x1_0000_0000_0000_0000) by(bit_vector)
            requires y1 == y >> 64, y0 == y & 0xffff_ffff_ffff_ffffu128;
        assert(x0 * y0 <= 0xffff_ffff_ffff_ffff * 0xffff_ffff_ffff_ffff) by(nonlinear_arith) requires x0 <= 0xffff_ffff_ffff_ffff, y0 <= 0xffff_ffff_ffff_ffff;
        assert(x0 * y1 <= 0xffff_ffff_ffff_ffff * 0xffff_ffff_ffff_ffff) by(nonlinear_arith) requires x0 <= 0xffff_ffff_ffff_ffff, y1 <= 0xffff_ffff_ffff_ffff;
        assert(x1 * y0 <= 0xffff_ffff_ffff_ffff * 0xffff_ffff_ffff_ffff) by(nonlinear_arith) requires y0 <= 0xffff_ffff_ffff_ffff, x1 <= 0xffff_ffff_ffff_ffff;
        assert(x1 * y1 <= 0xffff_ffff_ffff_ffff * 0xffff_ffff_ffff_ffff) by(nonlinear_arith) requires x1 <= 0xffff_ffff_ffff_ffff, y1 <= 0xffff_ffff_ffff_ffff;
    }
>>>
  after /let w0 = / <<<
    proof { assert(w0 >> 64 <= 0xffff_ffff_ffff_ffffu128) by(bit_vector); }
>>>
  after /let w2 = / <<<
    proof {
        assert(w0 >> 64 == w0 / 0x1_0000_0000_0000_0000) by(bit_vector);
        assert(w2 == m / 0x1_0000_0000_0000_0000 && w1 == m % 0x1_0000_0000_0000_0000) by(bit_vector)
            requires w2 == m >> 64, w1 == m & 0xffff_ffff_ffff_ffffu128;
    }
>>>
  after /let w3 = / <<<
    proof {
        let t = (x1 * y0 + w1) as u128;
        assert(t >> 64 == t / 0x1_0000_0000_0000_0000) by(bit_vector);
        let B = P64() as int;
        let X0 = x0 as int; let X1 = x1 as int; let Y0 = y0 as int; let Y1 = y1 as int;
        assert((x as int) * (y as int) == (X1*B + X0) * (Y1*B+Y0));
        assert((X1*B + X0) * (Y1*B+Y0) == (X1*B)*(Y1*B+Y0) + X0*(Y1*B+Y0)) by(nonlinear_arith);
        assert((X1*B)*(Y1*B+Y0) == X1*Y1*B*B + X1*Y0*B) by(nonlinear_arith);
        assert(X0*(Y1*B+Y0) == X0*Y1*B + X0*Y0) by(nonlinear_arith);
        assert((X1*Y0 + X0*Y1)*B == X1*Y0*B + X0*Y1*B) by(nonlinear_arith);
        let W0 = w0 as int; let M = m as int; let W1 = w1 as int; let W2 = w2 as int; let W3 = w3 as int;
        let lo = W0 % B;
        let T = X1*Y0 + W1;
        assert((x as int) * (y as int) == (X1*Y1 + W2 + W3)*(B*B) + ((T % B)*B + lo)) by(nonlinear_arith)
            requires (x as int) * (y as int) == X1*Y1*B*B + (X1*Y0 + X0*Y1)*B + X0*Y0,
              W0 == X0*Y0, M == X0*Y1 + W0/B, W1 == M % B, W2 == M / B, W3 == T / B, T == X1*Y0 + W1, lo == W0 % B, B == 0x1_0000_0000_0000_0000;
        assert(0 <= (T % B)*B + lo < B*B) by(nonlinear_arith) requires B == 0x1_0000_0000_0000_0000, lo == W0 % B;
        assert(B*B == P128());
        let hi = X1*Y1 + W2 + W3;
        lemma_fundamental_div_mod_converse((x as int) * (y as int), P128() as int, hi, (T % B)*B + lo);
    }
>>>
end
'''

POW2 = r'''
fn div128::pow2_u128_divrem
  sub /\bconst fn\b/ => /fn/
  sub /mask & n as u64/ => /mask & #[verifier::truncate] (n as u64)/
  spec <<<
    requires 0 < shr <= 64, mask as nat == pow2(shr as nat) - 1
    ensures ret.0 as nat == n as nat / pow2(shr as nat), ret.1 as nat == n as nat % pow2(shr as nat)
>>>
  after /let rem = / <<<
    proof {
        lemma_u128_shr_is_div(n, shr as u128);
        lemma2_to64();
        let lo = #[verifier::truncate] (n as u64);
        assert(lo as u128 == n % 0x1_0000_0000_0000_0000u128) by(bit_vector) requires lo == #[verifier::truncate] (n as u64);
        if shr < 64 {
            lemma_pow2_adds(shr as nat, (64 - shr) as nat);
            lemma_pow2_pos(shr as nat); lemma_pow2_pos((64 - shr) as nat);
            assert(pow2(shr as nat) * pow2((64-shr) as nat) == 0x1_0000_0000_0000_0000nat);
            lemma_mod_mod(n as int, pow2(shr as nat) as int, pow2((64-shr) as nat) as int);
            assert((lo as nat) % pow2(shr as nat) == (n as nat) % pow2(shr as nat));
            lemma_mask_mod(lo, mask, shr as nat);
        } else {
            assert(mask & lo == lo) by(bit_vector) requires mask == 0xffff_ffff_ffff_ffffu64;
            assert(pow2(64) == 0x1_0000_0000_0000_0000nat);
        }
    }
>>>
end
'''

FAST = r'''
fn div128::fast_u128_divrem
  sub /mulhi::<u128, u64>/ => /mulhi/
  sub /\(\(n >> fast_shr\) as u64 \/ \(d >> fast_shr\)\) as u128/ => /((#[verifier::truncate] ((n >> fast_shr) as u64)) / (d >> fast_shr)) as u128/
  sub /\(n - quot \* d as u128\) as u64/ => /#[verifier::truncate] ((n - quot * d as u128) as u64)/
  spec <<<
    requires
        0 < d, gm_valid(d as nat, factor as nat, factor_shr as nat),
        fast_valid(d as nat, fast as nat, fast_shr as nat),
    ensures ret.0 as nat == n as nat / d as nat, ret.1 as nat == n as nat % d as nat
>>>
  before /let quot = / <<<
    proof {
        lemma_u128_shr_is_div(n, fast_shr as u128);
        lemma_u64_shr_is_div(d, fast_shr as u64);
        lemma_pow2_pos(fast_shr as nat);
        lemma_fast(n as nat, d as nat, fast_shr as nat);
        lemma_gm(n as nat, d as nat, factor as nat, factor_shr as nat);
        lemma_rem_fits(n as nat, d as nat);
        lemma2_to64();
        if n < fast {
            // n / 2^a < 2^64
            assert((n as nat) / pow2(fast_shr as nat) < P64()) by(nonlinear_arith)
                requires (n as nat) < P64() * pow2(fast_shr as nat), pow2(fast_shr as nat) > 0;
            let a = pow2(fast_shr as nat);
            assert(d as nat / a > 0) by(nonlinear_arith) requires d as nat >= a, a > 0;
        }
    }
>>>
  after /let quot = / <<<
    proof {
        lemma_pow2_pos(factor_shr as nat);
        assert(P128() > 0);
        if n >= fast {
            lemma_mulhi_shr(n, factor, factor_shr);
            assert(quot as nat == n as nat / d as nat);
        } else {
            assert(quot as nat == n as nat / d as nat);
        }
    }
>>>
end
'''

MODERATE = r'''
fn div128::moderate_u128_divrem
  sub /mulhi::<u128, u64>/ => /mulhi/
  sub /\(n - quot \* d as u128\) as u64/ => /#[verifier::truncate] ((n - quot * d as u128) as u64)/
  spec <<<
    requires 0 < d, gm_valid(d as nat, factor as nat, factor_shr as nat),
    ensures ret.0 as nat == n as nat / d as nat, ret.1 as nat == n as nat % d as nat
>>>
  after /let quot = / <<<
    proof {
        lemma_gm(n as nat, d as nat, factor as nat, factor_shr as nat);
        lemma_rem_fits(n as nat, d as nat);
        lemma_mulhi_shr(n, factor, factor_shr);
        assert(quot as nat == n as nat / d as nat);
    }
>>>
end
'''


def radices(features):
    fs = set(features.split(','))
    if 'radix' in fs:
        return list(range(2, 37))
    if 'power-of-two' in fs:
        return [2, 4, 8, 10, 16, 32]
    return [10]


def parse_wrappers(repo):
    src = open(repo + '/lexical-util/src/div128.rs').read()
    out = {}
    for m in re.finditer(r'fn u128_divrem_(\d+)\(n: u128\) -> \(u128, u64\) \{\s*(\w+)\(([^)]*)\)\s*\}', src):
        args = [a.strip() for a in m.group(3).replace('\n', ' ').split(',') if a.strip()]
        out[int(m.group(1))] = (m.group(2), args)
    return out


def generate(ctx):
    feats = ctx.get('FEATURES', 'radix')
    repo = ctx['REPO']
    wr = parse_wrappers(repo)
    rs = radices(feats)
    parts = ['unit div128-%s' % (feats.replace(',', '_') or 'default'), 'crate lexical-util',
             'features %s' % ','.join(sorted((set(feats.split(',')) | {'write-integers'}) - {''})),
             'prelude <<<', PRELUDE]
    # spec-level divisor table copied from the wrappers' literals
    arms = []
    for r in rs:
        kind, args = wr[r]
        if kind == 'pow2_u128_divrem':
            arms.append('if radix == %d { pow2(%s) }' % (r, args[2]))
        else:
            arms.append('if radix == %d { %snat }' % (r, args[1]))
    parts.append('pub open spec fn divisor_of(radix: u32) -> nat { %s else { 0 } }' % ' else '.join(arms))
    parts.append('pub open spec fn radix_ok(radix: u32) -> bool { %s }' % ' || '.join('radix == %d' % r for r in rs))
    parts.append('>>>')
    parts += [MULHI, POW2, FAST, MODERATE]
    need_slow = any(wr[r][0] == 'slow_u128_divrem' for r in rs)
    if need_slow:
        parts.append(SLOW)
    for r in rs:
        kind, args = wr[r]
        if kind == 'pow2_u128_divrem':
            hint = '''  before /pow2_u128_divrem\\(/ <<<
    proof { lemma2_to64(); assert(pw(2, %s) == 0x%xnat) by(compute_only); lemma_pw2(%s); }
>>>''' % (args[2], 1 << int(args[2]), args[2])
            ens = 'ensures ret.0 as nat == n as nat / pow2(%s), ret.1 as nat == n as nat %% pow2(%s)' % (args[2], args[2])
            sub = '  sub /\\bconst fn\\b/ => /fn/\n'
        elif kind == 'fast_u128_divrem':
            d, fast, fshr, factor, shr = args[1:]
            hint = '''  before /fast_u128_divrem\\(/ <<<
    proof {
        lemma2_to64();
        assert(P128() * 0x%xnat <= %snat * %snat && %snat * %snat <= P128() * 0x%xnat + 0x%xnat) by(compute_only);
        assert(%snat %% 0x%xnat == 0 && %snat >= 0x%xnat && %snat <= P64() * 0x%xnat) by(compute_only);
        assert(pw(2, %s) == 0x%xnat && pw(2, %s) == 0x%xnat) by(compute_only);
        lemma_pw2(%s); lemma_pw2(%s);
    }
>>>''' % (1 << int(shr), factor, d, factor, d, 1 << int(shr), 1 << int(shr),
          d, 1 << int(fshr), d, 1 << int(fshr), fast, 1 << int(fshr),
          shr, 1 << int(shr), fshr, 1 << int(fshr), shr, fshr)
            ens = 'ensures ret.0 as nat == n as nat / %snat, ret.1 as nat == n as nat %% %snat' % (d, d)
            sub = ''
        elif kind == 'moderate_u128_divrem':
            d, factor, shr = args[1:]
            hint = '''  before /moderate_u128_divrem\\(/ <<<
    proof {
        lemma2_to64();
        assert(P128() * 0x%xnat <= %snat * %snat && %snat * %snat <= P128() * 0x%xnat + 0x%xnat) by(compute_only);
        assert(pw(2, %s) == 0x%xnat) by(compute_only);
        lemma_pw2(%s);
    }
>>>''' % (1 << int(shr), factor, d, factor, d, 1 << int(shr), 1 << int(shr), shr, 1 << int(shr), shr)
            ens = 'ensures ret.0 as nat == n as nat / %snat, ret.1 as nat == n as nat %% %snat' % (d, d)
            sub = ''
        else:
            d, ctlz = args[1:]
            hint = ''
            ens = 'ensures ret.0 as nat == n as nat / %snat, ret.1 as nat == n as nat %% %snat' % (d, d)
            sub = ''
        parts.append('fn div128::u128_divrem_%d\n%s  spec <<<\n    %s\n>>>\n%s\nend\n' % (r, sub, ens, hint))
    parts.append('''fn div128::u128_divrem
  sub /debug_assert_radix\\(radix\\);/ => /assert(2 <= radix && radix <= 36);/
  spec <<<
    requires radix_ok(radix)
    ensures ret.0 as nat == n as nat / divisor_of(radix), ret.1 as nat == n as nat % divisor_of(radix)
>>>
end
''')
    return '\n'.join(parts)


SLOW = r'''
fn div128::slow_u128_divrem
  assumed
  spec <<<
    requires d > 0
    ensures ret.0 as nat == n as nat / d as nat, ret.1 as nat == n as nat % d as nat
>>>
end
'''
