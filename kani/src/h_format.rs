//! U6 / C18: packed-format validation, builder round trip, getter/setter agreement; all 2^128 formats.
use crate::spec;
use crate::vk::{any, assume, cover};
use crate::vcheck;
use lexical_util::error::Error;
use lexical_util::format::{self as fmt, NumberFormatBuilder};

crate::harnesses! {
    /// format_error_impl(f) == Success  <=>  documented validity predicate, for every f: u128.
    /// @prop C18
    /// @feat radix_format default pow2 radix format pow2_format
    /// @quickfeats 2
    /// @fn lexical-util::feature_format::format_error_impl / not_feature_format::format_error_impl
    /// @assume reached through the cfg(lexical_verif) hook lexical_util::format::verif_format_error
    fn format_valid_iff_spec() {
        let f: u128 = any();
        let e = fmt::verif_format_error(f);
        vcheck!((e == Error::Success) == spec::spec_format_valid(f), "format valid <=> documented constraints");
        cover(e == Error::Success);
        cover(e != Error::Success);
    }

    /// build_strict returns (does not panic) for every valid format, and returns the normalised packed value.
    /// @prop C18
    /// @feat radix_format default
    /// @quickfeats 2
    /// @fn lexical-util::format_builder::NumberFormatBuilder::build_strict
    /// @fn lexical-util::format_builder::NumberFormatBuilder::rebuild
    fn format_build_strict_valid() {
        let f: u128 = any();
        assume(spec::spec_format_valid(spec::format_norm(f)));
        let g = NumberFormatBuilder::rebuild(f).build_strict();
        vcheck!(g == spec::format_norm(f), "build_strict == normalised fields");
    }

    /// build_strict never returns for an invalid format (its panic is the expected outcome).
    /// @prop C18
    /// @feat radix_format default
    /// @quickfeats 2
    /// @fn lexical-util::format_builder::NumberFormatBuilder::build_strict
    /// @tolerate format_builder.rs
    fn format_build_strict_invalid() {
        let f: u128 = any();
        assume(!spec::spec_format_valid(spec::format_norm(f)));
        let _g = NumberFormatBuilder::rebuild(f).build_strict();
        vcheck!(false, "build_strict returned for an invalid format");
    }

    /// rebuild/build_unchecked round trip: fields preserved, idempotent; radix/punctuation getters agree.
    /// @prop C18
    /// @feat radix_format default
    /// @quickfeats 2
    /// @fn lexical-util::format_builder::NumberFormatBuilder::rebuild
    /// @fn lexical-util::format_builder::NumberFormatBuilder::build_unchecked
    fn format_rebuild_roundtrip() {
        let f: u128 = any();
        let b = NumberFormatBuilder::rebuild(f);
        let g = b.build_unchecked();
        vcheck!(g == spec::format_norm(f), "rebuild(f).build_unchecked() keeps every documented field");
        vcheck!(NumberFormatBuilder::rebuild(g).build_unchecked() == g, "round trip is idempotent");
        vcheck!(b.get_mantissa_radix() as u32 == spec::f_mradix(f), "mantissa radix getter");
        vcheck!(fmt::mantissa_radix(f) == spec::f_mradix(f), "flags::mantissa_radix");
        vcheck!(fmt::exponent_base(f) == spec::f_ebase(f), "flags::exponent_base defaults to mantissa radix");
        vcheck!(fmt::exponent_radix(f) == spec::f_eradix(f), "flags::exponent_radix defaults to mantissa radix");
        vcheck!(fmt::digit_separator(f) == spec::f_sep(f), "flags::digit_separator");
        vcheck!(fmt::base_prefix(f) == spec::f_prefix(f), "flags::base_prefix");
        vcheck!(fmt::base_suffix(f) == spec::f_suffix(f), "flags::base_suffix");
    }

}
