use lexical_util::format::NumberFormatBuilder;
fn main() {
    let f: u128 = 5192296858534827628530496329220095;
    let g = NumberFormatBuilder::rebuild(f).build_unchecked();
    println!("f={f:#034x}\ng={g:#034x}\nn={:#034x}", lexverif::spec::format_norm(f));
}
