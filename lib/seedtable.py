#!/usr/bin/env python3
"""Replace the SEEDTABLE block of DESIGN.md by a compact table built from seeded/<id>/{meta.json, check_<prop>.log}."""
import glob, json, os, re
base = "/verif/seeded"
rows = []
for d in sorted(glob.glob(base + "/C*")):
    sid = os.path.basename(d)
    meta = json.load(open(d + "/meta.json")) if os.path.exists(d + "/meta.json") else {}
    files = ", ".join(os.path.basename(f) for f in meta.get("files_changed", []))[:60]
    summ = re.sub(r'\s+', ' ', meta.get("summary", ""))
    summ = (summ[:150] + "…") if len(summ) > 150 else summ
    for lg in sorted(glob.glob(d + "/check_*.log")):
        prop = re.search(r'check_(C\d+)\.log', lg).group(1)
        txt = open(lg).read()
        m = re.search(r'seed=\S+ prop=\S+ rc=(\d+) wall=(\d+)s', txt)
        rc, wall = (m.group(1), m.group(2)) if m else ("?", "?")
        viol = re.findall(r'^VIOLATION property=\S+ replay=\S+ obligation=(\S+)(.*)$', txt, re.M)
        obls = []
        for name, rest in viol:
            n = name.split("::")
            short = "::".join(n[:3]) if n[0] != "kani" else "::".join(n[:2])
            tag = " (no failing input)" if "no-failing-input-found" in rest else " (input replayed on the real code)"
            if short + tag not in obls:
                obls.append(short + tag)
        verdict = "**caught**" if rc == "1" and viol else ("undecided" if rc == "2" else "**missed**")
        rows.append("| %s | %s | %s | %s, `./check %s` %ss | %s |" % (sid, files, summ.replace("|", "\\|"), verdict, prop, wall, "; ".join("`%s`%s" % (o.split(" (")[0], " (" + o.split(" (")[1]) for o in obls[:3])))
table = "| seed | file | change | result (quick tier) | failed obligation(s) |\n|---|---|---|---|---|\n" + "\n".join(rows)
p = "/verif/DESIGN.md"
s = open(p).read()
if "SEEDTABLE" in s:
    s = s.replace("SEEDTABLE", "<!-- seedtable -->\n" + table + "\n<!-- /seedtable -->")
else:
    s = re.sub(r'<!-- seedtable -->.*?<!-- /seedtable -->', lambda m: "<!-- seedtable -->\n" + table + "\n<!-- /seedtable -->", s, flags=re.S)
open(p, "w").write(s)
print(len(rows), "rows")
