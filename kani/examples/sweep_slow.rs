//! Developer aid: validates the reference of h_slow (compare_bytes by digit value) natively on upper-case digit strings
//! (where the unchanged code is right) and shows the lower-case counterexamples.
#[cfg(feature = "radix")]
fn main() {
    use lexverif::h_slow::*;
    let digs_u = b"0123456789ABC"; let digs_l = b"0123456789abc";
    let (mut bad_u, mut bad_l, mut n) = (0u64, 0u64, 0u64);
    for a in (1u64..28561).step_by(7) {
        for code in 0u32..28561 {
            let d = [code % 13, (code / 13) % 13, (code / 169) % 13, (code / 2197) % 13];
            if d[0] == 0 { continue; }
            for len in 1..=4usize {
                let su: Vec<u8> = d[..len].iter().map(|&x| digs_u[x as usize]).collect();
                let sl: Vec<u8> = d[..len].iter().map(|&x| digs_l[x as usize]).collect();
                n += 1;
                if cmp_compare_bytes13(&su, a).is_err() { bad_u += 1; if bad_u < 5 { println!("upper-case mismatch: {:?} a={a}", String::from_utf8_lossy(&su)); } }
                if cmp_compare_bytes13(&sl, a).is_err() { bad_l += 1; if bad_l < 5 { println!("lower-case mismatch: {:?} a={a}", String::from_utf8_lossy(&sl)); } }
            }
        }
    }
    println!("sweep_slow: {n} cases, upper-case mismatches = {bad_u}, lower-case mismatches = {bad_l}");
    std::process::exit(if bad_u + bad_l > 0 { 1 } else { 0 });
}
#[cfg(not(feature = "radix"))]
fn main() {}
