#!/bin/sh
# Run every seeded change through the quick check of the property it was seeded for (sequentially; /repo is patched and
# restored by seedtest.sh).  usage: seedrun.sh [seed-id ...]
cd /verif || exit 2
if [ $# -eq 0 ]; then set -- C18a C02a C02b C14a C03b C03a C19a C16a C15a C17a C01a C08b C06a C05a C09a C04a C04b C11a C13a C12a C12b C10a; fi
# the evidence / replay files written while /repo is patched describe the patched tree: keep the clean ones aside
bak=$(mktemp -d /tmp/verif-evidence.XXXXXX)
cp -r evidence "$bak/evidence"; [ -d replays ] && cp -r replays "$bak/replays"
for id in "$@"; do
  prop=$(echo $id | cut -c1-3)
  ./lib/seedtest.sh $id $prop
done
rm -rf evidence replays; cp -r "$bak/evidence" evidence; [ -d "$bak/replays" ] && cp -r "$bak/replays" replays
rm -rf "$bak"
python3 lib/seedreport.py
