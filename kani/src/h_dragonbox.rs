//! WF2: Dragonbox integer helpers with exact contracts.
#![cfg(not(feature = "compact"))]
use crate::vk::{any, assume, cover};
use crate::vcheck;
use lexical_write_float::algorithm::{self as alg, DragonboxFloat};

fn pow10(n: u32) -> u64 { let mut p = 1u64; let mut i = 0; while i < n { p *= 10; i += 1; } p }

crate::harnesses! {
    /// f32 remove_trailing_zeros on a * 10^j (a < 2^12, j <= 5): returns (m', s) with m' * 10^s == m and 10 does not divide m'.
    /// (the contract is PROVED for every input by the Verus unit wf_rtz; this small-domain harness supplies counterexamples)
    /// @prop C02
    /// @feat default radix_format
    /// @bound significands a * 10^j with a < 4096, j <= 5
    /// @fn lexical-write-float::algorithm::DragonboxFloat::remove_trailing_zeros[f32]
    /// @fn lexical-write-float::algorithm::rotr32
    /// @timeout 1200
    #[cfg_attr(kani, kani::unwind(12))]
    fn dragonbox_rtz_f32_scaled() {
        let a: u32 = any();
        let j: u32 = any();
        assume(a >= 1 && a < 4096 && j <= 5);
        let m = a as u64 * pow10(j);
        let (r, s) = <f32 as DragonboxFloat>::remove_trailing_zeros(m);
        vcheck!(s >= 0 && s <= 9, "stripped exponent in range");
        vcheck!(r != 0 && r % 10 != 0, "no trailing decimal zero left");
        vcheck!(r.checked_mul(pow10(s as u32)) == Some(m), "m' * 10^s == m (only zeros were removed)");
        cover(s == 6);
    }

    /// f64 remove_trailing_zeros on a * 10^j (a < 2^10, j <= 14): both branches of the 10^8 test and both loops.
    /// (proved for every input by the Verus unit wf_rtz; counterexample supplier)
    /// @prop C02
    /// @feat default radix_format
    /// @bound significands a * 10^j with a < 1024, j <= 14
    /// @fn lexical-write-float::algorithm::DragonboxFloat::remove_trailing_zeros[f64]
    /// @timeout 1200
    #[cfg_attr(kani, kani::unwind(18))]
    fn dragonbox_rtz_f64_scaled() {
        let a: u32 = any();
        let j: u32 = any();
        assume(a >= 1 && a < 1024 && j <= 14);
        let m = a as u64 * pow10(j);
        let (r, s) = <f64 as DragonboxFloat>::remove_trailing_zeros(m);
        vcheck!(s >= 0 && s <= 17, "stripped exponent in range");
        vcheck!(r != 0 && r % 10 != 0, "no trailing decimal zero left");
        vcheck!(r.checked_mul(pow10(s as u32)) == Some(m), "m' * 10^s == m (only zeros were removed)");
        cover(s >= 8);
    }

    /// f64 remove_trailing_zeros on k * 10^8 + d with k < 2^10, d < 4 (values around multiples of 10^8).
    /// (proved for every input by the Verus unit wf_rtz; counterexample supplier)
    /// @prop C02
    /// @feat default radix_format
    /// @bound significands k * 10^8 + d, k < 1024, d in 0..=3
    /// @fn lexical-write-float::algorithm::DragonboxFloat::remove_trailing_zeros[f64] (divisibility by 10^8)
    /// @timeout 1200
    #[cfg_attr(kani, kani::unwind(12))]
    fn dragonbox_rtz_f64_near_1e8_multiples() {
        let k: u32 = any();
        let d: u8 = any();
        assume(k >= 1 && k < 1024 && d <= 3);
        let m = k as u64 * 100_000_000 + d as u64;
        let (r, s) = <f64 as DragonboxFloat>::remove_trailing_zeros(m);
        vcheck!(s >= 0 && s <= 16, "stripped exponent in range");
        vcheck!(r != 0 && r % 10 != 0, "no trailing decimal zero left");
        vcheck!(r.checked_mul(pow10(s as u32)) == Some(m), "m' * 10^s == m (only zeros were removed)");
        if d != 0 { vcheck!(s == 0 && r == m, "a significand that is not a multiple of 10 is returned unchanged"); }
        cover(d == 0 && s >= 8);
    }

    /// divide_by_pow10 (f64, exp = 3) == n / 1000 on the top 2^16 values below n_max (where a wrong magic number shows first).
    /// (proved for every n <= n_max by the Verus unit wf_dbmul; counterexample supplier)
    /// @prop C02
    /// @feat default radix_format
    /// @bound n in n_max - 65535 ..= n_max
    /// @fn lexical-write-float::algorithm::divide_by_pow10_64
    /// @fn lexical-write-float::algorithm::umul128_upper64
    /// @timeout 1200
    fn dragonbox_divide_by_pow10_f64() {
        let t: u16 = any();
        let n_max: u64 = (1u64 << 53) * 1000 - 1;
        let n = n_max - t as u64;
        let q = alg::divide_by_pow10_64(n, 3, n_max);
        vcheck!(q <= n_max / 1000 && q * 1000 <= n && n - q * 1000 < 1000, "divide_by_pow10_64(n, 3) == n / 1000");
    }

    /// divide_by_pow10 (f32, exp = 2) == n / 100 on the top 2^16 values below n_max and on the first 2^16 values.
    /// (proved for every n by the Verus unit wf_dbmul; counterexample supplier)
    /// @prop C02
    /// @feat default radix_format
    /// @bound n in 0..=65535 and n_max - 65535 ..= n_max
    /// @fn lexical-write-float::algorithm::divide_by_pow10_32
    /// @timeout 900
    fn dragonbox_divide_by_pow10_f32() {
        let t: u16 = any();
        let hi: bool = any();
        let n_max: u32 = ((1u64 << 24) * 100 - 1) as u32;
        let n = if hi { n_max - t as u32 } else { t as u32 };
        let q = alg::divide_by_pow10_32(n, 2) as u64;
        vcheck!(q * 100 <= n as u64 && (n as u64) - q * 100 < 100, "divide_by_pow10_32(n, 2) == n / 100");
    }

    /// check_div_pow10 / div_pow10 (small divisor 10^kappa): exact quotient and divisibility flag on the call-site range.
    /// @prop C02
    /// @feat default radix_format
    /// @fn lexical-write-float::algorithm::DragonboxFloat::check_div_pow10
    /// @fn lexical-write-float::algorithm::DragonboxFloat::div_pow10
    fn dragonbox_small_div() {
        let n: u32 = any();
        assume(n <= 1000);
        let (q, d) = <f64 as DragonboxFloat>::check_div_pow10(n);
        vcheck!(q == n / 100 && d == (n % 100 == 0), "f64 check_div_pow10(n) == (n / 100, 100 | n) for n <= 10^3");
        vcheck!(<f64 as DragonboxFloat>::div_pow10(n) == n / 100, "f64 div_pow10(n) == n / 100");
        if n <= 100 {
            let (q, d) = <f32 as DragonboxFloat>::check_div_pow10(n);
            vcheck!(q == n / 10 && d == (n % 10 == 0), "f32 check_div_pow10(n) == (n / 10, 10 | n) for n <= 10^2");
            vcheck!(<f32 as DragonboxFloat>::div_pow10(n) == n / 10, "f32 div_pow10(n) == n / 10");
        }
    }
}

/// C02 / C08 on the shorter-interval case: every power of two (mantissa field zero) is written to a decimal string that the
/// real parser reads back to the identical bits.
pub fn roundtrip_f32(bits: u32) -> Result<(), &'static str> {
    use lexical_parse_float::FromLexical;
    use lexical_write_float::ToLexical;
    let v = f32::from_bits(bits);
    let mut buf = [0u8; 64];
    let s = v.to_lexical(&mut buf);
    match f32::from_lexical(s) {
        Ok(r) => if r.to_bits() == bits { Ok(()) } else { Err("the written decimal string parses back to the identical bits") },
        Err(_) => Err("the written decimal string is accepted by the parser"),
    }
}
pub fn roundtrip_f64(bits: u64) -> Result<(), &'static str> {
    use lexical_parse_float::FromLexical;
    use lexical_write_float::ToLexical;
    let v = f64::from_bits(bits);
    let mut buf = [0u8; 64];
    let s = v.to_lexical(&mut buf);
    match f64::from_lexical(s) {
        Ok(r) => if r.to_bits() == bits { Ok(()) } else { Err("the written decimal string parses back to the identical bits") },
        Err(_) => Err("the written decimal string is accepted by the parser"),
    }
}

/// x * 10^k by a case split on k (every branch multiplies by a constant: cheap for the model checker)
macro_rules! mul_pow10 {
    ($name:ident, $U:ty, $($k:literal => $p:literal),*) => {
        pub fn $name(x: $U, k: usize) -> $U { match k { $($k => x * $p,)* _ => 0 } }
    };
}
mul_pow10!(mul_pow10_u64, u64, 0 => 1, 1 => 10, 2 => 100, 3 => 1_000, 4 => 10_000, 5 => 100_000, 6 => 1_000_000, 7 => 10_000_000, 8 => 100_000_000);
mul_pow10!(mul_pow10_u128, u128, 0 => 1, 1 => 10, 2 => 100, 3 => 1_000, 4 => 10_000, 5 => 100_000, 6 => 1_000_000, 7 => 10_000_000, 8 => 100_000_000,
    9 => 1_000_000_000, 10 => 10_000_000_000, 11 => 100_000_000_000, 12 => 1_000_000_000_000, 13 => 10_000_000_000_000,
    14 => 100_000_000_000_000, 15 => 1_000_000_000_000_000, 16 => 10_000_000_000_000_000);

/// C02 as an arithmetic contract on the binade [1, 2): `out` = "1.d1..dk" (1 <= k <= KMAX) written for the float m / 2^P
/// (m in [2^P, 2^(P+1)), P = 23 for f32 / 52 for f64) must
///   (a) lie in the float's rounding interval, i.e. parse back to m (round-trip; interval closed iff m is even),
///   (b) have no trailing zero (except "1.0"),
///   (c) be shortest: no decimal with k-1 fraction digits lies in the rounding interval,
///   (d) be within half a unit of its last digit of the float (closest among the k-digit decimals).
/// With D = the k+1 digits read as an integer: value = D / 10^k; float = m / 2^P; half an ulp = 1 / 2^(P+1).
macro_rules! shortest_unit_binade {
    ($name:ident, $U:ty, $mul:ident, $p:expr, $kmax:expr) => {
        pub fn $name(out: &[u8], m: $U) -> Result<(), &'static str> {
            const P: u32 = $p;
            let n = out.len();
            if n < 3 || n > $kmax + 2 { return Err("length of the written string"); }
            if out[0] != b'1' || out[1] != b'.' { return Err("positional form 1.ddd in [1, 2)"); }
            let mut d: $U = 1;
            let mut i = 2;
            while i < n {
                let c = out[i];
                if c < b'0' || c > b'9' { return Err("fraction digits are decimal digits"); }
                d = d * 10 + (c - b'0') as $U;
                i += 1;
            }
            let k = n - 2;
            let one: $U = 1;
            let pw = $mul(1, k);
            let a = d << (P + 1);
            let b = $mul(2 * m, k);
            let diff = if a >= b { a - b } else { b - a };
            // the lower neighbour of a power of two is only half as far away
            let lower_half = if m == (one << P) { pw / 2 } else { pw };
            let bound = if a >= b { pw } else { lower_half };
            if !(diff < bound || (diff == bound && m % 2 == 0)) { return Err("the written decimal lies in the rounding interval (parses back to the identical float)"); }
            if k > 1 && out[n - 1] == b'0' { return Err("no trailing zero"); }
            if diff > (one << P) { return Err("closest: within half a unit in the last written digit"); }
            if k >= 2 || out[2] != b'0' {
                // shortest: the rounding interval, scaled by 10^(k-1) and written over 2^(P+2), contains no integer
                let lo_num = if m == (one << P) { $mul(4 * m - 1, k - 1) } else { $mul((2 * m - 1) * 2, k - 1) };
                let hi_num = $mul((2 * m + 1) * 2, k - 1);
                let sh = P + 2;
                let mask = (one << sh) - 1;
                let even = m % 2 == 0;
                let lo_c = if lo_num & mask == 0 { if even { lo_num >> sh } else { (lo_num >> sh) + 1 } } else { (lo_num >> sh) + 1 };
                let hi_f = if hi_num & mask == 0 && !even { (hi_num >> sh) - 1 } else { hi_num >> sh };
                if lo_c <= hi_f { return Err("shortest: no decimal with fewer digits lies in the rounding interval"); }
            }
            Ok(())
        }
    };
}
shortest_unit_binade!(shortest_unit_binade_f32, u64, mul_pow10_u64, 23, 8);
shortest_unit_binade!(shortest_unit_binade_f64, u128, mul_pow10_u128, 52, 16);

/// x * 10^k (k <= 38), None on overflow; a case split so that every branch multiplies by a constant
pub fn mul_pow10_checked(x: u128, k: u32) -> Option<u128> {
    match k {
            0 => Some(x),
            1 => x.checked_mul(10),
            2 => x.checked_mul(100),
            3 => x.checked_mul(1000),
            4 => x.checked_mul(10000),
            5 => x.checked_mul(100000),
            6 => x.checked_mul(1000000),
            7 => x.checked_mul(10000000),
            8 => x.checked_mul(100000000),
            9 => x.checked_mul(1000000000),
            10 => x.checked_mul(10000000000),
            11 => x.checked_mul(100000000000),
            12 => x.checked_mul(1000000000000),
            13 => x.checked_mul(10000000000000),
            14 => x.checked_mul(100000000000000),
            15 => x.checked_mul(1000000000000000),
            16 => x.checked_mul(10000000000000000),
            17 => x.checked_mul(100000000000000000),
            18 => x.checked_mul(1000000000000000000),
            19 => x.checked_mul(10000000000000000000),
            20 => x.checked_mul(100000000000000000000),
            21 => x.checked_mul(1000000000000000000000),
            22 => x.checked_mul(10000000000000000000000),
            23 => x.checked_mul(100000000000000000000000),
            24 => x.checked_mul(1000000000000000000000000),
            25 => x.checked_mul(10000000000000000000000000),
            26 => x.checked_mul(100000000000000000000000000),
            27 => x.checked_mul(1000000000000000000000000000),
            28 => x.checked_mul(10000000000000000000000000000),
            29 => x.checked_mul(100000000000000000000000000000),
            30 => x.checked_mul(1000000000000000000000000000000),
            31 => x.checked_mul(10000000000000000000000000000000),
            32 => x.checked_mul(100000000000000000000000000000000),
            33 => x.checked_mul(1000000000000000000000000000000000),
            34 => x.checked_mul(10000000000000000000000000000000000),
            35 => x.checked_mul(100000000000000000000000000000000000),
            36 => x.checked_mul(1000000000000000000000000000000000000),
            37 => x.checked_mul(10000000000000000000000000000000000000),
            38 => x.checked_mul(100000000000000000000000000000000000000),
            _ => None,
    }
}

/// Shorter-interval case of Dragonbox on f32 powers of two 2^e, 25 <= e <= 127 (every quantity is an exact integer below
/// 2^128): the decimal (mant, exp) returned by to_decimal lies in the rounding interval [2^e - 2^(e-25), 2^e + 2^(e-24)]
/// (closed: the mantissa field 0 is even) and has no trailing zero.
pub fn shorter_interval_f32(be: u32) -> Result<(), &'static str> {
    let v = f32::from_bits(be << 23);
    let fp = alg::to_decimal(v);
    let e = be - 127;
    if fp.exp < 0 || fp.exp > 38 { return Err("decimal exponent of an integer-valued power of two is in 0..=38"); }
    let val = match mul_pow10_checked(fp.mant as u128, fp.exp as u32) { Some(v) => v, None => return Err("mant * 10^exp does not exceed the f32 range") };
    let c = 1u128 << e;
    let lo = c - (1u128 << (e - 25));
    let hi = c + (1u128 << (e - 24));
    if val < lo || val > hi { return Err("the shortest decimal of a power of two lies in its rounding interval (round trip)"); }
    if fp.mant % 10 == 0 { return Err("no trailing decimal zero in the significand"); }
    Ok(())
}

/// same contract for f64 powers of two 2^e, 54 <= e <= 127: interval [2^e - 2^(e-54), 2^e + 2^(e-53)].
pub fn shorter_interval_f64(be: u64) -> Result<(), &'static str> {
    let v = f64::from_bits(be << 52);
    let fp = alg::to_decimal(v);
    let e = (be - 1023) as u32;
    if fp.exp < 0 || fp.exp > 38 { return Err("decimal exponent of an integer-valued power of two is in 0..=38"); }
    let val = match mul_pow10_checked(fp.mant as u128, fp.exp as u32) { Some(v) => v, None => return Err("mant * 10^exp stays below 2^128") };
    let c = 1u128 << e;
    let lo = c - (1u128 << (e - 54));
    let hi = c + (1u128 << (e - 53));
    if val < lo || val > hi { return Err("the shortest decimal of a power of two lies in its rounding interval (round trip)"); }
    if fp.mant % 10 == 0 { return Err("no trailing decimal zero in the significand"); }
    Ok(())
}

/// f32 powers of two 2^e, -70 <= e <= -1: mant / 10^k in [2^(e-25) (2^25 - 1), 2^(e-24) (2^24 + 1)], cross-multiplied.
pub fn shorter_interval_f32_neg(be: u32) -> Result<(), &'static str> {
    let v = f32::from_bits(be << 23);
    let fp = alg::to_decimal(v);
    let ne = 127 - be;                       // -e, 1..=70
    if fp.exp >= 0 || fp.exp < -38 { return Err("decimal exponent of a power of two below 1 is in -38..=-1"); }
    let k = (-fp.exp) as u32;
    if fp.mant >= (1 << 30) { return Err("f32 significand has at most 9 digits"); }
    let d = fp.mant as u128;
    let lo_r = match mul_pow10_checked((1u128 << 25) - 1, k) { Some(v) => v, None => return Err("10^k stays in range") };
    let hi_r = match mul_pow10_checked((1u128 << 24) + 1, k) { Some(v) => v, None => return Err("10^k stays in range") };
    if (d << (25 + ne)) < lo_r || (d << (24 + ne)) > hi_r { return Err("the shortest decimal of a power of two lies in its rounding interval (round trip)"); }
    if fp.mant % 10 == 0 { return Err("no trailing decimal zero in the significand"); }
    Ok(())
}

pub fn shortest_f32_unit(bits: u32) -> Result<(), &'static str> {
    use lexical_write_float::ToLexical;
    let v = f32::from_bits(bits);
    let mut buf = [0u8; 64];
    let s = v.to_lexical(&mut buf);
    shortest_unit_binade_f32(s, ((bits & 0x7F_FFFF) | 0x80_0000) as u64)
}
pub fn shortest_f64_unit(bits: u64) -> Result<(), &'static str> {
    use lexical_write_float::ToLexical;
    let v = f64::from_bits(bits);
    let mut buf = [0u8; 64];
    let s = v.to_lexical(&mut buf);
    shortest_unit_binade_f64(s, ((bits & 0xF_FFFF_FFFF_FFFF) | 0x10_0000_0000_0000) as u128)
}

pub mod rt {
    use super::*;
    crate::harnesses! {
        /// f32 powers of two 2^25 ..= 2^127 (symbolic exponent): to_decimal's result lies in the rounding interval, by exact
        /// 128-bit integer arithmetic (no parser involved), and carries no trailing zero.
        /// @prop C02 C08
        /// @feat default
        /// @bound f32 powers of two with binary exponent 25..=127
        /// @fn lexical-write-float::algorithm::compute_nearest_shorter[f32]
        /// @fn lexical-write-float::algorithm::to_decimal
        /// @timeout 1500
        #[cfg_attr(kani, kani::unwind(12))]
        fn shorter_interval_f32_int_powers() {
            let be: u32 = any();
            assume(be >= 152 && be <= 254);
            let r = shorter_interval_f32(be);
            vcheck!(r.is_ok(), "f32 power of two: shortest decimal is inside the rounding interval");
            cover(be == 214);
        }

        /// f64 powers of two 2^54 ..= 2^127 (symbolic exponent): same contract, exact 128-bit integer arithmetic.
        /// @prop C02 C08
        /// @feat default
        /// @bound f64 powers of two with binary exponent 54..=127
        /// @fn lexical-write-float::algorithm::compute_nearest_shorter[f64]
        /// @fn lexical-write-float::algorithm::to_decimal
        /// @timeout 1500
        #[cfg_attr(kani, kani::unwind(12))]
        fn shorter_interval_f64_int_powers() {
            let be: u64 = any();
            assume(be >= 1023 + 54 && be <= 1023 + 127);
            let r = shorter_interval_f64(be);
            vcheck!(r.is_ok(), "f64 power of two: shortest decimal is inside the rounding interval");
            cover(be == 1023 + 89);
        }

        /// f32 powers of two 2^-70 ..= 2^-1 (symbolic exponent): same contract, cross-multiplied in 128 bits.
        /// @prop C02 C08
        /// @feat default
        /// @bound f32 powers of two with binary exponent -70..=-1
        /// @fn lexical-write-float::algorithm::compute_nearest_shorter[f32]
        /// @fn lexical-write-float::algorithm::to_decimal
        /// @timeout 1500
        #[cfg_attr(kani, kani::unwind(12))]
        fn shorter_interval_f32_neg_powers() {
            let be: u32 = any();
            assume(be >= 57 && be <= 126);
            let r = shorter_interval_f32_neg(be);
            vcheck!(r.is_ok(), "f32 power of two below 1: shortest decimal is inside the rounding interval");
            cover(be == 100);
        }

        /// f32 in [1, 2) whose mantissa field is below 2^12 (long outputs, 8-9 digits): the written string is in the rounding interval (round-trips), has no
        /// trailing zero, is shortest and is the closest decimal of its length - checked by exact integer arithmetic.
        /// @prop C02 C08
        /// @feat default
        /// @bound f32 values 1 + m / 2^23, m < 4096
        /// @fn lexical-write-float::algorithm::to_decimal[f32]
        /// @fn lexical-write-float::algorithm::compute_nearest_normal[f32]
        /// @fn lexical-write-float::algorithm::write_float_positive_exponent
        /// @fn lexical-write-float::algorithm::write_digits_u32 -> lexical-write-integer::jeaiii
        /// @timeout 1500
        #[cfg_attr(kani, kani::unwind(12))]
        fn shortest_f32_unit_low12() {
            let m: u32 = any();
            assume(m < (1 << 12));
            let r = shortest_f32_unit((127 << 23) | m);
            vcheck!(r.is_ok(), "f32 in [1,2): written decimal is in the rounding interval, shortest and closest");
        }

        /// f32 in [1, 2) whose mantissa field is a multiple of 2^11 (short outputs, trailing-zero removal): the written string is in the rounding interval (round-trips), has no
        /// trailing zero, is shortest and is the closest decimal of its length - checked by exact integer arithmetic.
        /// @prop C02 C08
        /// @feat default
        /// @bound f32 values 1 + h / 2^12, h < 4096
        /// @fn lexical-write-float::algorithm::to_decimal[f32]
        /// @fn lexical-write-float::algorithm::compute_nearest_normal[f32]
        /// @fn lexical-write-float::algorithm::write_float_positive_exponent
        /// @fn lexical-write-float::algorithm::write_digits_u32 -> lexical-write-integer::jeaiii
        /// @timeout 1500
        #[cfg_attr(kani, kani::unwind(12))]
        fn shortest_f32_unit_high12() {
            let m: u32 = any();
            assume(m < (1 << 23) && m & 0x7FF == 0);
            let r = shortest_f32_unit((127 << 23) | m);
            vcheck!(r.is_ok(), "f32 in [1,2): written decimal is in the rounding interval, shortest and closest");
        }

        /// every f32 in [1, 2) (all 2^23 mantissas): the written string is in the rounding interval (round-trips), has no
        /// trailing zero, is shortest and is the closest decimal of its length - checked by exact integer arithmetic.
        /// @prop C02 C08
        /// @tier thorough
        /// @feat default
        /// @bound f32 values in [1, 2)
        /// @fn lexical-write-float::algorithm::to_decimal[f32]
        /// @fn lexical-write-float::algorithm::compute_nearest_normal[f32]
        /// @fn lexical-write-float::algorithm::write_float_positive_exponent
        /// @fn lexical-write-float::algorithm::write_digits_u32 -> lexical-write-integer::jeaiii
        /// @timeout 5400
        #[cfg_attr(kani, kani::unwind(12))]
        fn shortest_f32_unit_binade() {
            let m: u32 = any();
            assume(m < (1 << 23));
            let r = shortest_f32_unit((127 << 23) | m);
            vcheck!(r.is_ok(), "f32 in [1,2): written decimal is in the rounding interval, shortest and closest");
        }

        /// every f64 in [1, 2) (all 2^52 mantissas): same contract as shortest_f32_unit_binade.
        /// @prop C02 C08
        /// @tier thorough
        /// @mem 12
        /// @feat default
        /// @bound f64 values in [1, 2)
        /// @fn lexical-write-float::algorithm::to_decimal[f64]
        /// @fn lexical-write-float::algorithm::compute_nearest_normal[f64]
        /// @fn lexical-write-float::algorithm::write_float_positive_exponent
        /// @timeout 3600
        #[cfg_attr(kani, kani::unwind(20))]
        fn shortest_f64_unit_binade() {
            let m: u64 = any();
            assume(m < (1 << 52));
            let r = shortest_f64_unit((1023u64 << 52) | m);
            vcheck!(r.is_ok(), "f64 in [1,2): written decimal is in the rounding interval, shortest and closest");
        }

        /// f32 powers of two with biased exponent in 1..=15 (symbolic), both signs: write -> parse round trip.
        /// @prop C02 C08
        /// @tier deep
        /// @feat default
        /// @bound f32 powers of two, biased exponent 1..=15
        /// @fn lexical-write-float::algorithm::compute_nearest_shorter[f32]
        /// @fn lexical-write-float::algorithm::to_decimal
        /// @mem 12
        /// @timeout 3600
        #[cfg_attr(kani, kani::unwind(24))]
        fn roundtrip_pow2_f32_e1() {
            let e: u32 = any();
            let neg: bool = any();
            assume(e >= 1 && e <= 15);
            let r = roundtrip_f32(((neg as u32) << 31) | (e << 23));
            vcheck!(r.is_ok(), "f32 power of two: write -> parse returns the identical bits");
        }

        /// f32 powers of two with biased exponent in 16..=31 (symbolic), both signs: write -> parse round trip.
        /// @prop C02 C08
        /// @tier thorough
        /// @feat default
        /// @bound f32 powers of two, biased exponent 16..=31
        /// @fn lexical-write-float::algorithm::compute_nearest_shorter[f32]
        /// @fn lexical-write-float::algorithm::to_decimal
        /// @mem 12
        /// @timeout 3600
        #[cfg_attr(kani, kani::unwind(24))]
        fn roundtrip_pow2_f32_e16() {
            let e: u32 = any();
            let neg: bool = any();
            assume(e >= 16 && e <= 31);
            let r = roundtrip_f32(((neg as u32) << 31) | (e << 23));
            vcheck!(r.is_ok(), "f32 power of two: write -> parse returns the identical bits");
        }

        /// f32 powers of two with biased exponent in 32..=47 (symbolic), both signs: write -> parse round trip.
        /// @prop C02 C08
        /// @tier deep
        /// @feat default
        /// @bound f32 powers of two, biased exponent 32..=47
        /// @fn lexical-write-float::algorithm::compute_nearest_shorter[f32]
        /// @fn lexical-write-float::algorithm::to_decimal
        /// @mem 12
        /// @timeout 3600
        #[cfg_attr(kani, kani::unwind(24))]
        fn roundtrip_pow2_f32_e32() {
            let e: u32 = any();
            let neg: bool = any();
            assume(e >= 32 && e <= 47);
            let r = roundtrip_f32(((neg as u32) << 31) | (e << 23));
            vcheck!(r.is_ok(), "f32 power of two: write -> parse returns the identical bits");
        }

        /// f32 powers of two with biased exponent in 48..=63 (symbolic), both signs: write -> parse round trip.
        /// @prop C02 C08
        /// @tier deep
        /// @feat default
        /// @bound f32 powers of two, biased exponent 48..=63
        /// @fn lexical-write-float::algorithm::compute_nearest_shorter[f32]
        /// @fn lexical-write-float::algorithm::to_decimal
        /// @mem 12
        /// @timeout 3600
        #[cfg_attr(kani, kani::unwind(24))]
        fn roundtrip_pow2_f32_e48() {
            let e: u32 = any();
            let neg: bool = any();
            assume(e >= 48 && e <= 63);
            let r = roundtrip_f32(((neg as u32) << 31) | (e << 23));
            vcheck!(r.is_ok(), "f32 power of two: write -> parse returns the identical bits");
        }

        /// f32 powers of two with biased exponent in 64..=79 (symbolic), both signs: write -> parse round trip.
        /// @prop C02 C08
        /// @tier deep
        /// @feat default
        /// @bound f32 powers of two, biased exponent 64..=79
        /// @fn lexical-write-float::algorithm::compute_nearest_shorter[f32]
        /// @fn lexical-write-float::algorithm::to_decimal
        /// @mem 12
        /// @timeout 3600
        #[cfg_attr(kani, kani::unwind(24))]
        fn roundtrip_pow2_f32_e64() {
            let e: u32 = any();
            let neg: bool = any();
            assume(e >= 64 && e <= 79);
            let r = roundtrip_f32(((neg as u32) << 31) | (e << 23));
            vcheck!(r.is_ok(), "f32 power of two: write -> parse returns the identical bits");
        }

        /// f32 powers of two with biased exponent in 80..=95 (symbolic), both signs: write -> parse round trip.
        /// @prop C02 C08
        /// @tier deep
        /// @feat default
        /// @bound f32 powers of two, biased exponent 80..=95
        /// @fn lexical-write-float::algorithm::compute_nearest_shorter[f32]
        /// @fn lexical-write-float::algorithm::to_decimal
        /// @mem 12
        /// @timeout 3600
        #[cfg_attr(kani, kani::unwind(24))]
        fn roundtrip_pow2_f32_e80() {
            let e: u32 = any();
            let neg: bool = any();
            assume(e >= 80 && e <= 95);
            let r = roundtrip_f32(((neg as u32) << 31) | (e << 23));
            vcheck!(r.is_ok(), "f32 power of two: write -> parse returns the identical bits");
        }

        /// f32 powers of two with biased exponent in 96..=111 (symbolic), both signs: write -> parse round trip.
        /// @prop C02 C08
        /// @tier deep
        /// @feat default
        /// @bound f32 powers of two, biased exponent 96..=111
        /// @fn lexical-write-float::algorithm::compute_nearest_shorter[f32]
        /// @fn lexical-write-float::algorithm::to_decimal
        /// @mem 12
        /// @timeout 3600
        #[cfg_attr(kani, kani::unwind(24))]
        fn roundtrip_pow2_f32_e96() {
            let e: u32 = any();
            let neg: bool = any();
            assume(e >= 96 && e <= 111);
            let r = roundtrip_f32(((neg as u32) << 31) | (e << 23));
            vcheck!(r.is_ok(), "f32 power of two: write -> parse returns the identical bits");
        }

        /// f32 powers of two with biased exponent in 112..=127 (symbolic), both signs: write -> parse round trip.
        /// @prop C02 C08
        /// @tier deep
        /// @feat default
        /// @bound f32 powers of two, biased exponent 112..=127
        /// @fn lexical-write-float::algorithm::compute_nearest_shorter[f32]
        /// @fn lexical-write-float::algorithm::to_decimal
        /// @mem 12
        /// @timeout 3600
        #[cfg_attr(kani, kani::unwind(24))]
        fn roundtrip_pow2_f32_e112() {
            let e: u32 = any();
            let neg: bool = any();
            assume(e >= 112 && e <= 127);
            let r = roundtrip_f32(((neg as u32) << 31) | (e << 23));
            vcheck!(r.is_ok(), "f32 power of two: write -> parse returns the identical bits");
        }

        /// f32 powers of two with biased exponent in 128..=143 (symbolic), both signs: write -> parse round trip.
        /// @prop C02 C08
        /// @tier deep
        /// @feat default
        /// @bound f32 powers of two, biased exponent 128..=143
        /// @fn lexical-write-float::algorithm::compute_nearest_shorter[f32]
        /// @fn lexical-write-float::algorithm::to_decimal
        /// @mem 12
        /// @timeout 3600
        #[cfg_attr(kani, kani::unwind(24))]
        fn roundtrip_pow2_f32_e128() {
            let e: u32 = any();
            let neg: bool = any();
            assume(e >= 128 && e <= 143);
            let r = roundtrip_f32(((neg as u32) << 31) | (e << 23));
            vcheck!(r.is_ok(), "f32 power of two: write -> parse returns the identical bits");
        }

        /// f32 powers of two with biased exponent in 144..=159 (symbolic), both signs: write -> parse round trip.
        /// @prop C02 C08
        /// @tier deep
        /// @feat default
        /// @bound f32 powers of two, biased exponent 144..=159
        /// @fn lexical-write-float::algorithm::compute_nearest_shorter[f32]
        /// @fn lexical-write-float::algorithm::to_decimal
        /// @mem 12
        /// @timeout 3600
        #[cfg_attr(kani, kani::unwind(24))]
        fn roundtrip_pow2_f32_e144() {
            let e: u32 = any();
            let neg: bool = any();
            assume(e >= 144 && e <= 159);
            let r = roundtrip_f32(((neg as u32) << 31) | (e << 23));
            vcheck!(r.is_ok(), "f32 power of two: write -> parse returns the identical bits");
        }

        /// f32 powers of two with biased exponent in 160..=175 (symbolic), both signs: write -> parse round trip.
        /// @prop C02 C08
        /// @tier deep
        /// @feat default
        /// @bound f32 powers of two, biased exponent 160..=175
        /// @fn lexical-write-float::algorithm::compute_nearest_shorter[f32]
        /// @fn lexical-write-float::algorithm::to_decimal
        /// @mem 12
        /// @timeout 3600
        #[cfg_attr(kani, kani::unwind(24))]
        fn roundtrip_pow2_f32_e160() {
            let e: u32 = any();
            let neg: bool = any();
            assume(e >= 160 && e <= 175);
            let r = roundtrip_f32(((neg as u32) << 31) | (e << 23));
            vcheck!(r.is_ok(), "f32 power of two: write -> parse returns the identical bits");
        }

        /// f32 powers of two with biased exponent in 176..=191 (symbolic), both signs: write -> parse round trip.
        /// @prop C02 C08
        /// @tier deep
        /// @feat default
        /// @bound f32 powers of two, biased exponent 176..=191
        /// @fn lexical-write-float::algorithm::compute_nearest_shorter[f32]
        /// @fn lexical-write-float::algorithm::to_decimal
        /// @mem 12
        /// @timeout 3600
        #[cfg_attr(kani, kani::unwind(24))]
        fn roundtrip_pow2_f32_e176() {
            let e: u32 = any();
            let neg: bool = any();
            assume(e >= 176 && e <= 191);
            let r = roundtrip_f32(((neg as u32) << 31) | (e << 23));
            vcheck!(r.is_ok(), "f32 power of two: write -> parse returns the identical bits");
        }

        /// f32 powers of two with biased exponent in 192..=207 (symbolic), both signs: write -> parse round trip.
        /// @prop C02 C08
        /// @tier deep
        /// @feat default
        /// @bound f32 powers of two, biased exponent 192..=207
        /// @fn lexical-write-float::algorithm::compute_nearest_shorter[f32]
        /// @fn lexical-write-float::algorithm::to_decimal
        /// @mem 12
        /// @timeout 3600
        #[cfg_attr(kani, kani::unwind(24))]
        fn roundtrip_pow2_f32_e192() {
            let e: u32 = any();
            let neg: bool = any();
            assume(e >= 192 && e <= 207);
            let r = roundtrip_f32(((neg as u32) << 31) | (e << 23));
            vcheck!(r.is_ok(), "f32 power of two: write -> parse returns the identical bits");
        }

        /// f32 powers of two with biased exponent in 208..=223 (symbolic), both signs: write -> parse round trip.
        /// @prop C02 C08
        /// @tier thorough
        /// @feat default
        /// @bound f32 powers of two, biased exponent 208..=223
        /// @fn lexical-write-float::algorithm::compute_nearest_shorter[f32]
        /// @fn lexical-write-float::algorithm::to_decimal
        /// @mem 12
        /// @timeout 3600
        #[cfg_attr(kani, kani::unwind(24))]
        fn roundtrip_pow2_f32_e208() {
            let e: u32 = any();
            let neg: bool = any();
            assume(e >= 208 && e <= 223);
            let r = roundtrip_f32(((neg as u32) << 31) | (e << 23));
            vcheck!(r.is_ok(), "f32 power of two: write -> parse returns the identical bits");
        }

        /// f32 powers of two with biased exponent in 224..=239 (symbolic), both signs: write -> parse round trip.
        /// @prop C02 C08
        /// @tier deep
        /// @feat default
        /// @bound f32 powers of two, biased exponent 224..=239
        /// @fn lexical-write-float::algorithm::compute_nearest_shorter[f32]
        /// @fn lexical-write-float::algorithm::to_decimal
        /// @mem 12
        /// @timeout 3600
        #[cfg_attr(kani, kani::unwind(24))]
        fn roundtrip_pow2_f32_e224() {
            let e: u32 = any();
            let neg: bool = any();
            assume(e >= 224 && e <= 239);
            let r = roundtrip_f32(((neg as u32) << 31) | (e << 23));
            vcheck!(r.is_ok(), "f32 power of two: write -> parse returns the identical bits");
        }

        /// f32 powers of two with biased exponent in 240..=254 (symbolic), both signs: write -> parse round trip.
        /// @prop C02 C08
        /// @tier deep
        /// @feat default
        /// @bound f32 powers of two, biased exponent 240..=254
        /// @fn lexical-write-float::algorithm::compute_nearest_shorter[f32]
        /// @fn lexical-write-float::algorithm::to_decimal
        /// @mem 12
        /// @timeout 3600
        #[cfg_attr(kani, kani::unwind(24))]
        fn roundtrip_pow2_f32_e240() {
            let e: u32 = any();
            let neg: bool = any();
            assume(e >= 240 && e <= 254);
            let r = roundtrip_f32(((neg as u32) << 31) | (e << 23));
            vcheck!(r.is_ok(), "f32 power of two: write -> parse returns the identical bits");
        }

        /// every normal f64 power of two, both signs: write -> parse round trip.
        /// @prop C02 C08
        /// @tier deep
        /// @mem 10
        /// @feat default radix_format
        /// @bound f64 powers of two (mantissa field zero), all 2046 normal exponents, both signs
        /// @fn lexical-write-float::algorithm::compute_nearest_shorter[f64]
        /// @timeout 5400
        #[cfg_attr(kani, kani::unwind(30))]
        fn roundtrip_pow2_f64() {
            let e: u64 = any();
            let neg: bool = any();
            assume(e >= 1 && e <= 2046);
            let bits = ((neg as u64) << 63) | (e << 52);
            let r = roundtrip_f64(bits);
            vcheck!(r.is_ok(), "f64 power of two: write -> parse returns the identical bits");
        }
    }
}
