//! WF7 / C06: power-of-two radix float output denotes exactly the float's value (and re-parses to the same bits).
//! Oracle: the written bytes are evaluated exactly (digits in the mantissa radix, exponent digits in the exponent radix,
//! exponent base 2 or 4 or the radix) and compared with mantissa * 2^exponent of the float taken from its bits.
#![cfg(feature = "power-of-two")]
use crate::vk::{any, assume, cover};
use crate::vcheck;
use core::num::NonZeroI32;
use lexical_util::format::NumberFormatBuilder as B;
use lexical_write_float::{Options, ToLexicalWithOptions};

pub const EXPC: u8 = b'^';

pub const fn mixed_format(radix: u8, base: u8) -> u128 {
    let r = core::num::NonZeroU8::new(base);
    let e = core::num::NonZeroU8::new(10);
    B::new().mantissa_radix(radix).exponent_base(r).exponent_radix(e).build_unchecked()
}

fn log2(r: u32) -> i64 { match r { 2 => 1, 4 => 2, 8 => 3, 16 => 4, 32 => 5, _ => 0 } }
fn dval(c: u8) -> u32 { match c { b'0'..=b'9' => (c - b'0') as u32, b'A'..=b'Z' => (c - b'A') as u32 + 10, b'a'..=b'z' => (c - b'a') as u32 + 10, _ => 99 } }

/// exact value of `out` as (negative, odd-or-zero integer m, power p): value = m * 2^p. None = not derivable by the grammar.
pub fn eval_pow2(out: &[u8], radix: u32, base: u32, eradix: u32) -> Result<(bool, u128, i64), &'static str> {
    let k = log2(radix); let kb = log2(base);
    if k == 0 || kb == 0 { return Err("oracle: radix and exponent base are powers of two"); }
    let mut i = 0;
    let neg = i < out.len() && out[i] == b'-';
    if neg { i += 1; }
    let mut m: u128 = 0; let mut nd = 0usize; let mut nfrac: i64 = 0; let mut seen_dot = false;
    while i < out.len() {
        let c = out[i];
        if c == b'.' { if seen_dot { return Err("at most one decimal point"); } seen_dot = true; i += 1; continue; }
        if c == EXPC { break; }
        let d = dval(c);
        if d >= radix { return Err("every mantissa byte is a digit of the radix"); }
        if m >> (127 - k) != 0 { return Err("oracle limit: more than 127 bits of digits"); }
        m = (m << k) | d as u128; nd += 1; if seen_dot { nfrac += 1; }
        i += 1;
    }
    if nd == 0 { return Err("at least one digit"); }
    let mut e: i64 = 0;
    if i < out.len() {
        i += 1;
        let eneg = i < out.len() && out[i] == b'-';
        if eneg || (i < out.len() && out[i] == b'+') { i += 1; }
        let mut ne = 0;
        while i < out.len() { let d = dval(out[i]); if d >= eradix { return Err("every exponent byte is a digit of the exponent radix"); } e = e * eradix as i64 + d as i64; if e > 1 << 20 { return Err("exponent magnitude"); } ne += 1; i += 1; }
        if ne == 0 { return Err("exponent has digits"); }
        if eneg { e = -e; }
    }
    let mut p = e * kb - nfrac * k;
    if m == 0 { return Ok((neg, 0, 0)); }
    let tz = m.trailing_zeros(); m >>= tz; p += tz as i64;
    Ok((neg, m, p))
}

pub fn want_f64(v: f64) -> (bool, u128, i64) {
    let b = v.to_bits(); let neg = b >> 63 == 1; let ef = ((b >> 52) & 0x7FF) as i64; let fr = b & ((1u64 << 52) - 1);
    let (mut m, mut p) = if ef == 0 { (fr as u128, -1074i64) } else { ((fr | (1 << 52)) as u128, ef - 1075) };
    if m == 0 { return (neg, 0, 0); }
    let tz = m.trailing_zeros(); m >>= tz; p += tz as i64;
    (neg, m, p)
}
pub fn want_f32(v: f32) -> (bool, u128, i64) {
    let b = v.to_bits(); let neg = b >> 31 == 1; let ef = ((b >> 23) & 0xFF) as i64; let fr = b & ((1u32 << 23) - 1);
    let (mut m, mut p) = if ef == 0 { (fr as u128, -149i64) } else { ((fr | (1 << 23)) as u128, ef - 150) };
    if m == 0 { return (neg, 0, 0); }
    let tz = m.trailing_zeros(); m >>= tz; p += tz as i64;
    (neg, m, p)
}

/// notation: 0 default breaks, 1 force exponent notation (breaks -1/1 still leave sci_exp in -1..=1 positional), 2 force positional (wide breaks)
pub fn opts(notation: u8) -> Option<Options> {
    let mut b = Options::builder().exponent(EXPC);
    if notation == 1 { b = b.negative_exponent_break(NonZeroI32::new(-1)).positive_exponent_break(NonZeroI32::new(1)); }
    if notation == 2 { b = b.negative_exponent_break(NonZeroI32::new(-40)).positive_exponent_break(NonZeroI32::new(40)); }
    if !b.is_valid() { return None; }
    Some(b.build_unchecked())
}

macro_rules! cmp_wbin {
    ($name:ident, $t:ty, $want:ident) => {
        pub fn $name<const F: u128>(v: $t, radix: u32, base: u32, eradix: u32, notation: u8) -> Result<(), &'static str> {
            let o = match opts(notation) { Some(o) => o, None => return Err("options with exponent '^' are valid") };
            let mut buf = [0u8; 320];
            let n = v.to_lexical_with_options::<F>(&mut buf, &o).len();
            let got = eval_pow2(&buf[..n], radix, base, eradix)?;
            let want = $want(v);
            if got.0 != want.0 { return Err("sign is written"); }
            if got.1 != want.1 || (want.1 != 0 && got.2 != want.2) { return Err("the written digits and exponent denote exactly the float's value"); }
            Ok(())
        }
    };
}
macro_rules! rt_wbin {
    ($name:ident, $t:ty) => {
        /// write with the real writer, re-parse with the real complete parser in the same format: identical bits
        pub fn $name<const F: u128>(v: $t, notation: u8) -> Result<(), &'static str> {
            use lexical_parse_float::FromLexicalWithOptions;
            let o = match opts(notation) { Some(o) => o, None => return Err("options with exponent '^' are valid") };
            let po = match lexical_parse_float::Options::builder().exponent(EXPC).build() { Ok(o) => o, Err(_) => return Err("parse options with exponent '^' are valid") };
            let mut buf = [0u8; 320];
            let n = v.to_lexical_with_options::<F>(&mut buf, &o).len();
            match <$t>::from_lexical_with_options::<F>(&buf[..n], &po) {
                Ok(r) => if r.to_bits() == v.to_bits() { Ok(()) } else { Err("re-parsing the output in the same format returns the identical bits") },
                Err(_) => Err("the output is accepted by the complete parser of the same format"),
            }
        }
    };
}
rt_wbin!(rt_wbin_f32, f32);
rt_wbin!(rt_wbin_f64, f64);
cmp_wbin!(cmp_wbin_f32, f32, want_f32);
cmp_wbin!(cmp_wbin_f64, f64, want_f64);

/// value m * 2^p (m odd or 0) rounded to `max` significant digits of radix 2^k: half-to-even under Round, toward zero
/// under Truncate; returned normalised (odd mantissa, exponent)
pub fn expect_round(m: u128, p: i64, k: i64, max: i64, truncate: bool) -> (u128, i64) {
    if m == 0 { return (0, 0); }
    let bl = 128 - m.leading_zeros() as i64;
    let t = p + bl - 1;                                   // position of the leading bit
    let b0 = t.div_euclid(k) * k;                          // lowest bit position of the leading digit
    let low = b0 - (max - 1) * k;                          // lowest bit position that is kept
    if low <= p { return (m, p); }                         // nothing to drop
    let sh = (low - p) as u32;
    if sh >= 127 { return (m, p); }                        // oracle limit (not reached by f32/f64)
    let q = m >> sh;
    let rem = m & ((1u128 << sh) - 1);
    let half = 1u128 << (sh - 1);
    let up = !truncate && (rem > half || (rem == half && q & 1 == 1));
    let mut r = q + up as u128;
    let mut e = low;
    if r == 0 { return (0, 0); }
    let tz = r.trailing_zeros(); r >>= tz; e += tz as i64;
    (r, e)
}

/// number of significant digits of the written mantissa (first non-zero digit .. last non-zero digit)
pub fn sig_digits(out: &[u8]) -> usize {
    let mut first = usize::MAX; let mut last = 0usize; let mut idx = 0usize;
    let mut i = 0;
    if i < out.len() && out[i] == b'-' { i += 1; }
    while i < out.len() && out[i] != EXPC {
        if out[i] != b'.' { if out[i] != b'0' { if first == usize::MAX { first = idx; } last = idx; } idx += 1; }
        i += 1;
    }
    if first == usize::MAX { 0 } else { last - first + 1 }
}

/// C14 on the power-of-two writers: with max_significant_digits = max the output has at most max significant digits and
/// denotes exactly the float rounded to max digits (half-to-even / truncated)
pub fn cmp_wbin_maxdigits_f32<const F: u128>(v: f32, radix: u32, base: u32, eradix: u32, max: usize, truncate: bool) -> Result<(), &'static str> {
    use lexical_write_float::RoundMode;
    let b = Options::builder().exponent(EXPC).max_significant_digits(core::num::NonZeroUsize::new(max))
        .round_mode(if truncate { RoundMode::Truncate } else { RoundMode::Round });
    if !b.is_valid() { return Err("options are valid"); }
    let o = b.build_unchecked();
    let mut buf = [0u8; 320];
    let n = v.to_lexical_with_options::<F>(&mut buf, &o).len();
    let got = eval_pow2(&buf[..n], radix, base, eradix)?;
    let w = want_f32(v);
    let k = match radix { 2 => 1, 4 => 2, 8 => 3, 16 => 4, 32 => 5, _ => return Err("oracle: power-of-two radix") };
    let want = expect_round(w.1, w.2, k, max as i64, truncate);
    if got.0 != w.0 { return Err("sign is written"); }
    if sig_digits(&buf[..n]) > max { return Err("at most max_significant_digits significant digits are written"); }
    if got.1 != want.0 || (want.0 != 0 && got.2 != want.1) { return Err("the output denotes the float rounded to max_significant_digits digits (half-to-even / truncated)"); }
    Ok(())
}

macro_rules! wbin32 {
    ($radix:expr, $base:expr, $eradix:expr, $F:expr, $notation:expr) => {{
        const F: u128 = $F;
        let bits: u32 = any();
        let v = f32::from_bits(bits);
        assume(v.is_finite());
        let r = cmp_wbin_f32::<F>(v, $radix, $base, $eradix, $notation);
        vcheck!(r.is_ok(), "power-of-two radix output denotes exactly the float's value");
        cover(r.is_ok());
    }};
}
macro_rules! wbin32e {
    ($e:expr, $radix:expr, $base:expr, $eradix:expr, $F:expr, $notation:expr) => {{
        const F: u128 = $F;
        let m: u32 = any();
        let neg: bool = any();
        assume(m < (1 << 23));
        let v = f32::from_bits(((neg as u32) << 31) | (($e as u32) << 23) | m);
        let r = cmp_wbin_f32::<F>(v, $radix, $base, $eradix, $notation);
        vcheck!(r.is_ok(), "power-of-two radix output denotes exactly the float's value");
        cover(r.is_ok());
    }};
}
macro_rules! wbin64 {
    ($radix:expr, $base:expr, $eradix:expr, $F:expr, $notation:expr) => {{
        const F: u128 = $F;
        let bits: u64 = any();
        let v = f64::from_bits(bits);
        assume(v.is_finite());
        let r = cmp_wbin_f64::<F>(v, $radix, $base, $eradix, $notation);
        vcheck!(r.is_ok(), "power-of-two radix output denotes exactly the float's value");
        cover(r.is_ok());
    }};
}

macro_rules! rt32 {
    ($F:expr, $notation:expr) => {{
        const F: u128 = $F;
        let bits: u32 = any();
        let v = f32::from_bits(bits);
        assume(v.is_finite());
        let r = rt_wbin_f32::<F>(v, $notation);
        vcheck!(r.is_ok(), "power-of-two radix output re-parses to the identical bits");
        cover(r.is_ok());
    }};
}

crate::harnesses! {
    /// binary::fast_log2 on its whole domain {2, 4, 8, 16, 32} (restated as an assumed contract in the Verus unit wf_bintrunc).
    /// @prop C14 C06
    /// @feat pow2 radix
    /// @fn lexical-write-float::binary::fast_log2
    /// @timeout 600
    fn binary_fast_log2_all() {
        let k: u32 = any();
        assume(k >= 1 && k <= 5);
        vcheck!(lexical_write_float::binary::fast_log2(1u32 << k) == k as i32, "fast_log2(2^k) == k");
    }

    /// radix 2 with max_significant_digits 1..=3, both round modes, every f32 in the binade [1, 2) (all 2^23 mantissas).
    /// (the bit-level contract of truncate_and_round is proved for every mantissa by the Verus unit wf_bintrunc)
    /// @prop C14
    /// @tier thorough
    /// @feat pow2 radix
    /// @bound f32 values in [1, 2) and (-2, -1]
    /// @fn lexical-write-float::binary::truncate_and_round
    /// @fn lexical-write-float::binary::write_float
    /// @timeout 1500
    #[cfg_attr(kani, kani::unwind(40))]
    fn wbin_maxdigits_r2_binade() {
        const F: u128 = crate::radix_format(2);
        let bits: u32 = any(); assume((bits >> 23) & 0xFF == 127);
        let v = f32::from_bits(bits);
        let max: usize = any(); assume(max >= 1 && max <= 3);
        let truncate: bool = any();
        let r = cmp_wbin_maxdigits_f32::<F>(v, 2, 2, 2, max, truncate);
        vcheck!(r.is_ok(), "radix 2: output == float rounded to max_significant_digits");
    }

    /// radix 2 with max_significant_digits 1..=3, both round modes, every finite f32.
    /// @prop C14
    /// @tier thorough
    /// @mem 14
    /// @feat pow2 radix
    /// @fn lexical-write-float::binary::truncate_and_round
    /// @fn lexical-write-float::binary::write_float
    /// @timeout 5400
    #[cfg_attr(kani, kani::unwind(40))]
    fn wbin_maxdigits_r2() {
        const F: u128 = crate::radix_format(2);
        let bits: u32 = any(); let v = f32::from_bits(bits); assume(v.is_finite());
        let max: usize = any(); assume(max >= 1 && max <= 3);
        let truncate: bool = any();
        let r = cmp_wbin_maxdigits_f32::<F>(v, 2, 2, 2, max, truncate);
        vcheck!(r.is_ok(), "radix 2: output == float rounded to max_significant_digits");
    }

    /// radix 16 with max_significant_digits 1..=2, both round modes, f32 with binary exponent in -7..=7.
    /// @prop C14
    /// @tier thorough
    /// @bound f32 values with binary exponent in -7..=7
    /// @feat pow2 radix
    /// @fn lexical-write-float::binary::truncate_and_round
    /// @fn lexical-write-float::binary::{write_float_scientific, write_float_positive_exponent, write_float_negative_exponent} (digit alignment)
    /// @timeout 2400
    #[cfg_attr(kani, kani::unwind(16))]
    fn wbin_maxdigits_r16() {
        const F: u128 = crate::radix_format(16);
        let bits: u32 = any(); assume((bits >> 23) & 0xFF >= 120 && (bits >> 23) & 0xFF <= 134);
        let v = f32::from_bits(bits);
        let max: usize = any(); assume(max >= 1 && max <= 2);
        let truncate: bool = any();
        let r = cmp_wbin_maxdigits_f32::<F>(v, 16, 16, 16, max, truncate);
        vcheck!(r.is_ok(), "radix 16: output == float rounded to max_significant_digits");
    }

    /// write -> parse round trip, every finite f32, hex float (radix 16, exponent base 2, decimal exponent digits).
    /// @prop C06 C08 C05
    /// @tier thorough
    /// @mem 12
    /// @feat pow2 radix
    /// @fn lexical-write-float::hex::write_float
    /// @fn lexical-parse-float::parse::parse_complete (fast path applicability for mixed exponent base)
    /// @fn lexical-parse-float::number::Number::try_fast_path
    /// @fn lexical-parse-float::binary::binary
    /// @timeout 5400
    #[cfg_attr(kani, kani::unwind(14))]
    fn rt_f32_hex16_base2() { rt32!(mixed_format(16, 2), 0) }

    /// write -> parse round trip, every finite f32, radix 8.
    /// @prop C06 C08 C05
    /// @tier thorough
    /// @feat pow2 radix
    /// @fn lexical-write-float::binary::write_float
    /// @fn lexical-parse-float::binary::binary
    /// @timeout 3600
    #[cfg_attr(kani, kani::unwind(16))]
    fn rt_f32_radix8() { rt32!(crate::radix_format(8), 0) }

    /// hex float (radix 16, exponent base 2), every f32 in [1, 2) and (-2, -1] (every finite f32: wbin_f32_hex16_base2, thorough).
    /// @prop C06 C09
    /// @bound f32 values with exponent field 127
    /// @feat pow2 radix
    /// @fn lexical-write-float::hex::write_float
    /// @timeout 1200
    #[cfg_attr(kani, kani::unwind(14))]
    fn wbin_f32_hex16_base2_e127() { wbin32e!(127, 16, 2, 10, mixed_format(16, 2), 0) }

    /// hex float (radix 16, exponent base 2), every subnormal f32 and both zeros (mantissa with leading zero bits).
    /// @prop C06 C09
    /// @bound f32 values with exponent field 0 (subnormals and zeros)
    /// @feat pow2 radix
    /// @fn lexical-write-float::hex::write_float
    /// @fn lexical-write-float::binary::truncate_and_round (significant bit count of a subnormal mantissa)
    /// @timeout 1200
    #[cfg_attr(kani, kani::unwind(14))]
    fn wbin_f32_hex16_base2_e0() { wbin32e!(0, 16, 2, 10, mixed_format(16, 2), 0) }

    /// radix 16 (same exponent base), every f32 in [1, 2) and (-2, -1] (every finite f32: wbin_f32_radix16, thorough).
    /// @prop C06 C09
    /// @bound f32 values with exponent field 127
    /// @feat pow2 radix
    /// @fn lexical-write-float::binary::write_float
    /// @timeout 1200
    #[cfg_attr(kani, kani::unwind(14))]
    fn wbin_f32_radix16_e127() { wbin32e!(127, 16, 16, 16, crate::radix_format(16), 0) }

    /// radix 8, every f32 with exponent field 1 (smallest normal binade: long negative exponent, scientific notation).
    /// @prop C06 C09
    /// @bound f32 values with exponent field 1
    /// @feat pow2 radix
    /// @fn lexical-write-float::binary::write_float
    /// @timeout 1200
    #[cfg_attr(kani, kani::unwind(16))]
    fn wbin_f32_radix8_e1() { wbin32e!(1, 8, 8, 8, crate::radix_format(8), 0) }

    /// radix 16 with max_significant_digits 1..=2, both round modes, f32 in [1, 2) and (-2, -1] (known finding F11 lives here).
    /// @prop C14
    /// @bound f32 values with exponent field 127
    /// @feat pow2 radix
    /// @fn lexical-write-float::binary::truncate_and_round
    /// @fn lexical-write-float::binary::{write_float_scientific, write_float_positive_exponent, write_float_negative_exponent} (digit alignment)
    /// @timeout 1200
    #[cfg_attr(kani, kani::unwind(16))]
    fn wbin_maxdigits_r16_e127() {
        const F: u128 = crate::radix_format(16);
        let bits: u32 = any(); assume((bits >> 23) & 0xFF == 127);
        let v = f32::from_bits(bits);
        let max: usize = any(); assume(max >= 1 && max <= 2);
        let truncate: bool = any();
        let r = cmp_wbin_maxdigits_f32::<F>(v, 16, 16, 16, max, truncate);
        vcheck!(r.is_ok(), "radix 16: output == float rounded to max_significant_digits");
    }

    /// every finite f32, radix 16 with exponent base 2 (hex float), default notation.
    /// @prop C06 C09
    /// @tier thorough
    /// @mem 10
    /// @feat pow2 radix
    /// @fn lexical-write-float::hex::write_float
    /// @fn lexical-write-float::hex::{write_float_scientific, write_float_positive_exponent, write_float_negative_exponent}
    /// @fn lexical-write-float::binary::{truncate_and_round, write_float_*}
    /// @timeout 2400
    #[cfg_attr(kani, kani::unwind(14))]
    fn wbin_f32_hex16_base2() { wbin32!(16, 2, 10, mixed_format(16, 2), 0) }

    /// every finite f32, radix 16 (same exponent base), default notation.
    /// @prop C06 C09
    /// @tier thorough
    /// @mem 10
    /// @feat pow2 radix
    /// @fn lexical-write-float::binary::write_float
    /// @timeout 2400
    #[cfg_attr(kani, kani::unwind(14))]
    fn wbin_f32_radix16() { wbin32!(16, 16, 16, crate::radix_format(16), 0) }

    /// every finite f32, radix 8.
    /// @prop C06 C09
    /// @tier thorough
    /// @mem 10
    /// @feat pow2 radix
    /// @fn lexical-write-float::binary::write_float
    /// @timeout 2400
    #[cfg_attr(kani, kani::unwind(16))]
    fn wbin_f32_radix8() { wbin32!(8, 8, 8, crate::radix_format(8), 0) }

    /// every finite f32, radix 2.
    /// @prop C06 C09
    /// @mem 10
    /// @tier thorough
    /// @feat pow2 radix
    /// @fn lexical-write-float::binary::write_float
    /// @timeout 3600
    #[cfg_attr(kani, kani::unwind(40))]
    fn wbin_f32_radix2() { wbin32!(2, 2, 2, crate::radix_format(2), 0) }

    /// every finite f32, radix 4.
    /// @prop C06 C09
    /// @mem 10
    /// @tier thorough
    /// @feat pow2 radix
    /// @fn lexical-write-float::binary::write_float
    /// @timeout 3600
    #[cfg_attr(kani, kani::unwind(24))]
    fn wbin_f32_radix4() { wbin32!(4, 4, 4, crate::radix_format(4), 0) }

    /// every finite f32, radix 32.
    /// @prop C06 C09
    /// @mem 10
    /// @tier thorough
    /// @feat pow2 radix
    /// @fn lexical-write-float::binary::write_float
    /// @timeout 3600
    #[cfg_attr(kani, kani::unwind(14))]
    fn wbin_f32_radix32() { wbin32!(32, 32, 32, crate::radix_format(32), 0) }

    /// every finite f32, radix 16 / base 4 and radix 8 / base 2, exponent notation forced.
    /// @prop C06 C09
    /// @mem 10
    /// @tier thorough
    /// @feat pow2 radix
    /// @fn lexical-write-float::hex::write_float
    /// @timeout 3600
    #[cfg_attr(kani, kani::unwind(16))]
    fn wbin_f32_hex16_base4_sci() { wbin32!(16, 4, 10, mixed_format(16, 4), 1) }

    /// every finite f32, radix 8 / base 2, exponent notation forced.
    /// @prop C06 C09
    /// @mem 10
    /// @tier thorough
    /// @feat pow2 radix
    /// @fn lexical-write-float::hex::write_float
    /// @timeout 3600
    #[cfg_attr(kani, kani::unwind(16))]
    fn wbin_f32_oct8_base2_sci() { wbin32!(8, 2, 10, mixed_format(8, 2), 1) }

    /// every finite f64, radix 16 with exponent base 2 (hex float), default notation.
    /// @prop C06 C09
    /// @mem 10
    /// @tier deep
    /// @feat pow2 radix
    /// @fn lexical-write-float::hex::write_float
    /// @timeout 5400
    #[cfg_attr(kani, kani::unwind(20))]
    fn wbin_f64_hex16_base2() { wbin64!(16, 2, 10, mixed_format(16, 2), 0) }

    /// every finite f64, radix 32, default notation.
    /// @prop C06 C09
    /// @mem 10
    /// @tier deep
    /// @feat pow2 radix
    /// @fn lexical-write-float::binary::write_float
    /// @timeout 5400
    #[cfg_attr(kani, kani::unwind(20))]
    fn wbin_f64_radix32() { wbin64!(32, 32, 32, crate::radix_format(32), 0) }
}
