//! Contract harnesses over the real rust-lexical crates (path dependencies on /repo).
#![allow(clippy::all, unused)]
pub mod vk;
pub mod spec;
pub mod h_int_write;
pub mod h_int_parse;
pub mod h_util;
pub mod h_format;
#[cfg(feature = "format")]
pub mod h_format_setters;
pub mod h_swar;
pub mod h_float_tok;
pub mod h_special;
pub mod h_bound;
pub mod h_round;
pub mod h_options;
pub mod h_special_write;
#[cfg(any(feature = "compact", feature = "radix"))]
pub mod h_bellerophon;
#[cfg(feature = "power-of-two")]
pub mod h_float_bin;
#[cfg(feature = "power-of-two")]
pub mod h_float_wbin;
#[cfg(not(feature = "compact"))]
pub mod h_dragonbox;
#[cfg(feature = "format")]
pub mod h_sep;
pub mod h_facade;
#[cfg(not(feature = "compact"))]
pub mod h_float_emit;
#[cfg(not(feature = "compact"))]
pub mod h_lemire;
#[cfg(feature = "format")]
pub mod h_float_fmt;
#[cfg(not(feature = "compact"))]
pub mod h_digit_count;
#[cfg(feature = "radix")]
pub mod h_slow;
pub mod h_mantissa;

pub type Harness = (&'static str, fn());

pub fn all_harnesses() -> Vec<Harness> {
    let mut v: Vec<Harness> = Vec::new();
    v.extend_from_slice(h_int_write::HARNESSES);
    v.extend_from_slice(h_int_write::exact64::HARNESSES);
    v.extend_from_slice(h_int_parse::HARNESSES);
    #[cfg(feature = "power-of-two")]
    v.extend_from_slice(h_int_parse::pow2::HARNESSES);
    v.extend_from_slice(h_util::HARNESSES);
    v.extend_from_slice(h_format::HARNESSES);
    #[cfg(feature = "format")]
    v.extend_from_slice(h_format_setters::HARNESSES);
    v.extend_from_slice(h_swar::HARNESSES);
    v.extend_from_slice(h_float_tok::HARNESSES);
    v.extend_from_slice(h_special::HARNESSES);
    v.extend_from_slice(h_bound::HARNESSES);
    v.extend_from_slice(h_round::HARNESSES);
    v.extend_from_slice(h_options::HARNESSES);
    #[cfg(not(feature = "compact"))]
    v.extend_from_slice(h_bound::emit::HARNESSES);
    v.extend_from_slice(h_special_write::HARNESSES);
    #[cfg(feature = "compact")]
    v.extend_from_slice(h_bellerophon::dec::HARNESSES);
    #[cfg(feature = "radix")]
    v.extend_from_slice(h_bellerophon::radix::HARNESSES);
    #[cfg(feature = "power-of-two")]
    v.extend_from_slice(h_float_bin::HARNESSES);
    #[cfg(feature = "power-of-two")]
    v.extend_from_slice(h_float_wbin::HARNESSES);
    #[cfg(not(feature = "compact"))]
    v.extend_from_slice(h_dragonbox::HARNESSES);
    #[cfg(not(feature = "compact"))]
    v.extend_from_slice(h_dragonbox::rt::HARNESSES);
    #[cfg(feature = "format")]
    v.extend_from_slice(h_sep::HARNESSES);
    v.extend_from_slice(h_facade::HARNESSES);
    #[cfg(not(feature = "compact"))]
    v.extend_from_slice(h_float_emit::HARNESSES);
    #[cfg(all(not(feature = "compact"), feature = "format"))]
    v.extend_from_slice(h_float_emit::fmt::HARNESSES);
    #[cfg(feature = "format")]
    v.extend_from_slice(h_special::fmt::HARNESSES);
    #[cfg(not(feature = "compact"))]
    v.extend_from_slice(h_lemire::HARNESSES);
    #[cfg(feature = "format")]
    v.extend_from_slice(h_float_fmt::HARNESSES);
    #[cfg(not(feature = "compact"))]
    v.extend_from_slice(h_digit_count::HARNESSES);
    #[cfg(all(not(feature = "compact"), feature = "power-of-two"))]
    v.extend_from_slice(h_digit_count::pow2::HARNESSES);
    #[cfg(all(not(feature = "compact"), feature = "radix"))]
    v.extend_from_slice(h_digit_count::naive::HARNESSES);
    #[cfg(feature = "radix")]
    v.extend_from_slice(h_slow::HARNESSES);
    v.extend_from_slice(h_mantissa::HARNESSES);
    v
}

/// Defines harness functions and a table of them.
#[macro_export]
macro_rules! harnesses {
    ($( $(#[$m:meta])* fn $name:ident() $body:block )*) => {
        $(
            #[cfg_attr(kani, kani::proof)]
            $(#[$m])*
            pub fn $name() $body
        )*
        pub const HARNESSES: &[$crate::Harness] = &[ $( (stringify!($name), $name as fn()) ),* ];
    };
}

/// Number format for a radix: `from_radix(r)` needs `power-of-two`; decimal is STANDARD everywhere.
pub const fn radix_format(r: u8) -> u128 {
    #[cfg(feature = "power-of-two")]
    { lexical_util::format::NumberFormatBuilder::from_radix(r) }
    #[cfg(not(feature = "power-of-two"))]
    { let _ = r; lexical_util::format::STANDARD }
}
