//! PI1: SWAR digit validity and 4/8-digit combine, all words x radix 2..=10.
use crate::spec;
use crate::vk::{any, assume, cover};
use crate::vcheck;
use lexical_parse_integer::algorithm as alg;

macro_rules! by_radix {
    ($r:expr, $f:ident, $v:expr) => {
        match $r {
            #[cfg(feature = "radix")] 3 => alg::$f::<{ crate::radix_format(3) }>($v),
            #[cfg(feature = "radix")] 5 => alg::$f::<{ crate::radix_format(5) }>($v),
            #[cfg(feature = "radix")] 6 => alg::$f::<{ crate::radix_format(6) }>($v),
            #[cfg(feature = "radix")] 7 => alg::$f::<{ crate::radix_format(7) }>($v),
            #[cfg(feature = "radix")] 9 => alg::$f::<{ crate::radix_format(9) }>($v),
            #[cfg(feature = "power-of-two")] 2 => alg::$f::<{ crate::radix_format(2) }>($v),
            #[cfg(feature = "power-of-two")] 4 => alg::$f::<{ crate::radix_format(4) }>($v),
            #[cfg(feature = "power-of-two")] 8 => alg::$f::<{ crate::radix_format(8) }>($v),
            _ => alg::$f::<{ crate::radix_format(10) }>($v),
        }
    };
}

fn radix_sym() -> u32 {
    let r: u32 = any();
    if cfg!(feature = "radix") { assume(r >= 2 && r <= 10); }
    else if cfg!(feature = "power-of-two") { assume(r == 2 || r == 4 || r == 8 || r == 10); }
    else { assume(r == 10); }
    r
}

crate::harnesses! {
    /// is_4digits(v) <=> all four bytes are digits of the radix; parse_4digits == positional value. All u32 x radix<=10.
    /// @prop C04 C10 C13
    /// @feat default radix
    /// @fn lexical-parse-integer::algorithm::is_4digits
    /// @fn lexical-parse-integer::algorithm::parse_4digits
    fn swar_4digits_all() {
        let v: u32 = any();
        let r = radix_sym();
        let b = v.to_le_bytes();
        let d0 = spec::digit_val(b[0], r); let d1 = spec::digit_val(b[1], r);
        let d2 = spec::digit_val(b[2], r); let d3 = spec::digit_val(b[3], r);
        let all = d0.is_some() && d1.is_some() && d2.is_some() && d3.is_some();
        let is = by_radix!(r, is_4digits, v);
        vcheck!(is == all, "is_4digits <=> every byte is a digit of the radix");
        if all {
            let want = ((d0.unwrap() * r + d1.unwrap()) * r + d2.unwrap()) * r + d3.unwrap();
            let got = by_radix!(r, parse_4digits, v);
            vcheck!(got == want, "parse_4digits == sum d_i * r^(3-i)");
        }
        cover(all && r == 10);
    }

    /// is_8digits(v) <=> all eight bytes are digits of the radix. All u64 x radix<=10.
    /// @prop C04 C10 C13 C01
    /// @feat default radix
    /// @fn lexical-parse-integer::algorithm::is_8digits
    fn swar_is_8digits_all() {
        let v: u64 = any();
        let r = radix_sym();
        let b = v.to_le_bytes();
        let mut all = true;
        let mut i = 0;
        while i < 8 { if spec::digit_val(b[i], r).is_none() { all = false; } i += 1; }
        let is = by_radix!(r, is_8digits, v);
        vcheck!(is == all, "is_8digits <=> every byte is a digit of the radix");
        cover(all);
    }

    /// parse_8digits == positional value of eight digit bytes. All digit words x radix<=10.
    /// @prop C04 C13 C01
    /// @feat default radix
    /// @fn lexical-parse-integer::algorithm::parse_8digits
    fn swar_parse_8digits_all() {
        let r = radix_sym();
        let ds: [u8; 8] = any();
        let mut i = 0;
        let mut want: u64 = 0;
        let mut b = [0u8; 8];
        while i < 8 {
            assume((ds[i] as u32) < r);
            want = want * r as u64 + ds[i] as u64;
            b[i] = b'0' + ds[i];
            i += 1;
        }
        let v = u64::from_le_bytes(b);
        let got = by_radix!(r, parse_8digits, v);
        vcheck!(got == want, "parse_8digits == sum d_i * r^(7-i)");
        cover(r == 10 && ds[0] == 9);
    }
}
