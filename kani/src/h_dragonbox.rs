//! WF2: Dragonbox integer helpers with exact contracts.
#![cfg(not(feature = "compact"))]
use crate::vk::{any, assume, cover};
use crate::vcheck;
use lexical_write_float::algorithm::{self as alg, DragonboxFloat};

fn pow10(n: u32) -> u64 { let mut p = 1u64; let mut i = 0; while i < n { p *= 10; i += 1; } p }

crate::harnesses! {
    /// f32 remove_trailing_zeros on a * 10^j (a < 2^12, j <= 5): returns (m', s) with m' * 10^s == m and 10 does not divide m'.
    /// (the contract is PROVED for every input by the Verus unit wf_rtz; this small-domain harness supplies counterexamples)
    /// @prop C02
    /// @feat default radix_format
    /// @bound significands a * 10^j with a < 4096, j <= 5
    /// @fn lexical-write-float::algorithm::DragonboxFloat::remove_trailing_zeros[f32]
    /// @fn lexical-write-float::algorithm::rotr32
    /// @timeout 1200
    #[cfg_attr(kani, kani::unwind(12))]
    fn dragonbox_rtz_f32_scaled() {
        let a: u32 = any();
        let j: u32 = any();
        assume(a >= 1 && a < 4096 && j <= 5);
        let m = a as u64 * pow10(j);
        let (r, s) = <f32 as DragonboxFloat>::remove_trailing_zeros(m);
        vcheck!(s >= 0 && s <= 9, "stripped exponent in range");
        vcheck!(r != 0 && r % 10 != 0, "no trailing decimal zero left");
        vcheck!(r.checked_mul(pow10(s as u32)) == Some(m), "m' * 10^s == m (only zeros were removed)");
        cover(s == 6);
    }

    /// f64 remove_trailing_zeros on a * 10^j (a < 2^10, j <= 14): both branches of the 10^8 test and both loops.
    /// (proved for every input by the Verus unit wf_rtz; counterexample supplier)
    /// @prop C02
    /// @feat default radix_format
    /// @bound significands a * 10^j with a < 1024, j <= 14
    /// @fn lexical-write-float::algorithm::DragonboxFloat::remove_trailing_zeros[f64]
    /// @timeout 1200
    #[cfg_attr(kani, kani::unwind(18))]
    fn dragonbox_rtz_f64_scaled() {
        let a: u32 = any();
        let j: u32 = any();
        assume(a >= 1 && a < 1024 && j <= 14);
        let m = a as u64 * pow10(j);
        let (r, s) = <f64 as DragonboxFloat>::remove_trailing_zeros(m);
        vcheck!(s >= 0 && s <= 17, "stripped exponent in range");
        vcheck!(r != 0 && r % 10 != 0, "no trailing decimal zero left");
        vcheck!(r.checked_mul(pow10(s as u32)) == Some(m), "m' * 10^s == m (only zeros were removed)");
        cover(s >= 8);
    }

    /// f64 remove_trailing_zeros on k * 10^8 + d with k < 2^10, d < 4 (values around multiples of 10^8).
    /// (proved for every input by the Verus unit wf_rtz; counterexample supplier)
    /// @prop C02
    /// @feat default radix_format
    /// @bound significands k * 10^8 + d, k < 1024, d in 0..=3
    /// @fn lexical-write-float::algorithm::DragonboxFloat::remove_trailing_zeros[f64] (divisibility by 10^8)
    /// @timeout 1200
    #[cfg_attr(kani, kani::unwind(12))]
    fn dragonbox_rtz_f64_near_1e8_multiples() {
        let k: u32 = any();
        let d: u8 = any();
        assume(k >= 1 && k < 1024 && d <= 3);
        let m = k as u64 * 100_000_000 + d as u64;
        let (r, s) = <f64 as DragonboxFloat>::remove_trailing_zeros(m);
        vcheck!(s >= 0 && s <= 16, "stripped exponent in range");
        vcheck!(r != 0 && r % 10 != 0, "no trailing decimal zero left");
        vcheck!(r.checked_mul(pow10(s as u32)) == Some(m), "m' * 10^s == m (only zeros were removed)");
        if d != 0 { vcheck!(s == 0 && r == m, "a significand that is not a multiple of 10 is returned unchanged"); }
        cover(d == 0 && s >= 8);
    }

    /// divide_by_pow10 (f64, exp = 3) == n / 1000 on the top 2^16 values below n_max (where a wrong magic number shows first).
    /// (proved for every n <= n_max by the Verus unit wf_dbmul; counterexample supplier)
    /// @prop C02
    /// @feat default radix_format
    /// @bound n in n_max - 65535 ..= n_max
    /// @fn lexical-write-float::algorithm::divide_by_pow10_64
    /// @fn lexical-write-float::algorithm::umul128_upper64
    /// @timeout 1200
    fn dragonbox_divide_by_pow10_f64() {
        let t: u16 = any();
        let n_max: u64 = (1u64 << 53) * 1000 - 1;
        let n = n_max - t as u64;
        let q = alg::divide_by_pow10_64(n, 3, n_max);
        vcheck!(q <= n_max / 1000 && q * 1000 <= n && n - q * 1000 < 1000, "divide_by_pow10_64(n, 3) == n / 1000");
    }

    /// divide_by_pow10 (f32, exp = 2) == n / 100 on the top 2^16 values below n_max and on the first 2^16 values.
    /// (proved for every n by the Verus unit wf_dbmul; counterexample supplier)
    /// @prop C02
    /// @feat default radix_format
    /// @bound n in 0..=65535 and n_max - 65535 ..= n_max
    /// @fn lexical-write-float::algorithm::divide_by_pow10_32
    /// @timeout 900
    fn dragonbox_divide_by_pow10_f32() {
        let t: u16 = any();
        let hi: bool = any();
        let n_max: u32 = ((1u64 << 24) * 100 - 1) as u32;
        let n = if hi { n_max - t as u32 } else { t as u32 };
        let q = alg::divide_by_pow10_32(n, 2) as u64;
        vcheck!(q * 100 <= n as u64 && (n as u64) - q * 100 < 100, "divide_by_pow10_32(n, 2) == n / 100");
    }

    /// check_div_pow10 / div_pow10 (small divisor 10^kappa): exact quotient and divisibility flag on the call-site range.
    /// @prop C02
    /// @feat default radix_format
    /// @fn lexical-write-float::algorithm::DragonboxFloat::check_div_pow10
    /// @fn lexical-write-float::algorithm::DragonboxFloat::div_pow10
    fn dragonbox_small_div() {
        let n: u32 = any();
        assume(n <= 1000);
        let (q, d) = <f64 as DragonboxFloat>::check_div_pow10(n);
        vcheck!(q == n / 100 && d == (n % 100 == 0), "f64 check_div_pow10(n) == (n / 100, 100 | n) for n <= 10^3");
        vcheck!(<f64 as DragonboxFloat>::div_pow10(n) == n / 100, "f64 div_pow10(n) == n / 100");
        if n <= 100 {
            let (q, d) = <f32 as DragonboxFloat>::check_div_pow10(n);
            vcheck!(q == n / 10 && d == (n % 10 == 0), "f32 check_div_pow10(n) == (n / 10, 10 | n) for n <= 10^2");
            vcheck!(<f32 as DragonboxFloat>::div_pow10(n) == n / 10, "f32 div_pow10(n) == n / 10");
        }
    }
}

/// C02 / C08 on the shorter-interval case: every power of two (mantissa field zero) is written to a decimal string that the
/// real parser reads back to the identical bits.
pub fn roundtrip_f32(bits: u32) -> Result<(), &'static str> {
    use lexical_parse_float::FromLexical;
    use lexical_write_float::ToLexical;
    let v = f32::from_bits(bits);
    let mut buf = [0u8; 64];
    let s = v.to_lexical(&mut buf);
    match f32::from_lexical(s) {
        Ok(r) => if r.to_bits() == bits { Ok(()) } else { Err("the written decimal string parses back to the identical bits") },
        Err(_) => Err("the written decimal string is accepted by the parser"),
    }
}
pub fn roundtrip_f64(bits: u64) -> Result<(), &'static str> {
    use lexical_parse_float::FromLexical;
    use lexical_write_float::ToLexical;
    let v = f64::from_bits(bits);
    let mut buf = [0u8; 64];
    let s = v.to_lexical(&mut buf);
    match f64::from_lexical(s) {
        Ok(r) => if r.to_bits() == bits { Ok(()) } else { Err("the written decimal string parses back to the identical bits") },
        Err(_) => Err("the written decimal string is accepted by the parser"),
    }
}

pub mod rt {
    use super::*;
    crate::harnesses! {
        /// f32 powers of two with biased exponent in 1..=15 (symbolic), both signs: write -> parse round trip.
        /// @prop C02 C08
        /// @tier thorough
        /// @feat default
        /// @bound f32 powers of two, biased exponent 1..=15
        /// @fn lexical-write-float::algorithm::compute_nearest_shorter[f32]
        /// @fn lexical-write-float::algorithm::to_decimal
        /// @mem 12
        /// @timeout 3600
        #[cfg_attr(kani, kani::unwind(24))]
        fn roundtrip_pow2_f32_e1() {
            let e: u32 = any();
            let neg: bool = any();
            assume(e >= 1 && e <= 15);
            let r = roundtrip_f32(((neg as u32) << 31) | (e << 23));
            vcheck!(r.is_ok(), "f32 power of two: write -> parse returns the identical bits");
        }

        /// f32 powers of two with biased exponent in 16..=31 (symbolic), both signs: write -> parse round trip.
        /// @prop C02 C08
        /// @tier thorough
        /// @feat default
        /// @bound f32 powers of two, biased exponent 16..=31
        /// @fn lexical-write-float::algorithm::compute_nearest_shorter[f32]
        /// @fn lexical-write-float::algorithm::to_decimal
        /// @mem 12
        /// @timeout 3600
        #[cfg_attr(kani, kani::unwind(24))]
        fn roundtrip_pow2_f32_e16() {
            let e: u32 = any();
            let neg: bool = any();
            assume(e >= 16 && e <= 31);
            let r = roundtrip_f32(((neg as u32) << 31) | (e << 23));
            vcheck!(r.is_ok(), "f32 power of two: write -> parse returns the identical bits");
        }

        /// f32 powers of two with biased exponent in 32..=47 (symbolic), both signs: write -> parse round trip.
        /// @prop C02 C08
        /// @tier thorough
        /// @feat default
        /// @bound f32 powers of two, biased exponent 32..=47
        /// @fn lexical-write-float::algorithm::compute_nearest_shorter[f32]
        /// @fn lexical-write-float::algorithm::to_decimal
        /// @mem 12
        /// @timeout 3600
        #[cfg_attr(kani, kani::unwind(24))]
        fn roundtrip_pow2_f32_e32() {
            let e: u32 = any();
            let neg: bool = any();
            assume(e >= 32 && e <= 47);
            let r = roundtrip_f32(((neg as u32) << 31) | (e << 23));
            vcheck!(r.is_ok(), "f32 power of two: write -> parse returns the identical bits");
        }

        /// f32 powers of two with biased exponent in 48..=63 (symbolic), both signs: write -> parse round trip.
        /// @prop C02 C08
        /// @tier thorough
        /// @feat default
        /// @bound f32 powers of two, biased exponent 48..=63
        /// @fn lexical-write-float::algorithm::compute_nearest_shorter[f32]
        /// @fn lexical-write-float::algorithm::to_decimal
        /// @mem 12
        /// @timeout 3600
        #[cfg_attr(kani, kani::unwind(24))]
        fn roundtrip_pow2_f32_e48() {
            let e: u32 = any();
            let neg: bool = any();
            assume(e >= 48 && e <= 63);
            let r = roundtrip_f32(((neg as u32) << 31) | (e << 23));
            vcheck!(r.is_ok(), "f32 power of two: write -> parse returns the identical bits");
        }

        /// f32 powers of two with biased exponent in 64..=79 (symbolic), both signs: write -> parse round trip.
        /// @prop C02 C08
        /// @tier thorough
        /// @feat default
        /// @bound f32 powers of two, biased exponent 64..=79
        /// @fn lexical-write-float::algorithm::compute_nearest_shorter[f32]
        /// @fn lexical-write-float::algorithm::to_decimal
        /// @mem 12
        /// @timeout 3600
        #[cfg_attr(kani, kani::unwind(24))]
        fn roundtrip_pow2_f32_e64() {
            let e: u32 = any();
            let neg: bool = any();
            assume(e >= 64 && e <= 79);
            let r = roundtrip_f32(((neg as u32) << 31) | (e << 23));
            vcheck!(r.is_ok(), "f32 power of two: write -> parse returns the identical bits");
        }

        /// f32 powers of two with biased exponent in 80..=95 (symbolic), both signs: write -> parse round trip.
        /// @prop C02 C08
        /// @tier thorough
        /// @feat default
        /// @bound f32 powers of two, biased exponent 80..=95
        /// @fn lexical-write-float::algorithm::compute_nearest_shorter[f32]
        /// @fn lexical-write-float::algorithm::to_decimal
        /// @mem 12
        /// @timeout 3600
        #[cfg_attr(kani, kani::unwind(24))]
        fn roundtrip_pow2_f32_e80() {
            let e: u32 = any();
            let neg: bool = any();
            assume(e >= 80 && e <= 95);
            let r = roundtrip_f32(((neg as u32) << 31) | (e << 23));
            vcheck!(r.is_ok(), "f32 power of two: write -> parse returns the identical bits");
        }

        /// f32 powers of two with biased exponent in 96..=111 (symbolic), both signs: write -> parse round trip.
        /// @prop C02 C08
        /// @tier thorough
        /// @feat default
        /// @bound f32 powers of two, biased exponent 96..=111
        /// @fn lexical-write-float::algorithm::compute_nearest_shorter[f32]
        /// @fn lexical-write-float::algorithm::to_decimal
        /// @mem 12
        /// @timeout 3600
        #[cfg_attr(kani, kani::unwind(24))]
        fn roundtrip_pow2_f32_e96() {
            let e: u32 = any();
            let neg: bool = any();
            assume(e >= 96 && e <= 111);
            let r = roundtrip_f32(((neg as u32) << 31) | (e << 23));
            vcheck!(r.is_ok(), "f32 power of two: write -> parse returns the identical bits");
        }

        /// f32 powers of two with biased exponent in 112..=127 (symbolic), both signs: write -> parse round trip.
        /// @prop C02 C08
        /// @tier thorough
        /// @feat default
        /// @bound f32 powers of two, biased exponent 112..=127
        /// @fn lexical-write-float::algorithm::compute_nearest_shorter[f32]
        /// @fn lexical-write-float::algorithm::to_decimal
        /// @mem 12
        /// @timeout 3600
        #[cfg_attr(kani, kani::unwind(24))]
        fn roundtrip_pow2_f32_e112() {
            let e: u32 = any();
            let neg: bool = any();
            assume(e >= 112 && e <= 127);
            let r = roundtrip_f32(((neg as u32) << 31) | (e << 23));
            vcheck!(r.is_ok(), "f32 power of two: write -> parse returns the identical bits");
        }

        /// f32 powers of two with biased exponent in 128..=143 (symbolic), both signs: write -> parse round trip.
        /// @prop C02 C08
        /// @tier thorough
        /// @feat default
        /// @bound f32 powers of two, biased exponent 128..=143
        /// @fn lexical-write-float::algorithm::compute_nearest_shorter[f32]
        /// @fn lexical-write-float::algorithm::to_decimal
        /// @mem 12
        /// @timeout 3600
        #[cfg_attr(kani, kani::unwind(24))]
        fn roundtrip_pow2_f32_e128() {
            let e: u32 = any();
            let neg: bool = any();
            assume(e >= 128 && e <= 143);
            let r = roundtrip_f32(((neg as u32) << 31) | (e << 23));
            vcheck!(r.is_ok(), "f32 power of two: write -> parse returns the identical bits");
        }

        /// f32 powers of two with biased exponent in 144..=159 (symbolic), both signs: write -> parse round trip.
        /// @prop C02 C08
        /// @tier thorough
        /// @feat default
        /// @bound f32 powers of two, biased exponent 144..=159
        /// @fn lexical-write-float::algorithm::compute_nearest_shorter[f32]
        /// @fn lexical-write-float::algorithm::to_decimal
        /// @mem 12
        /// @timeout 3600
        #[cfg_attr(kani, kani::unwind(24))]
        fn roundtrip_pow2_f32_e144() {
            let e: u32 = any();
            let neg: bool = any();
            assume(e >= 144 && e <= 159);
            let r = roundtrip_f32(((neg as u32) << 31) | (e << 23));
            vcheck!(r.is_ok(), "f32 power of two: write -> parse returns the identical bits");
        }

        /// f32 powers of two with biased exponent in 160..=175 (symbolic), both signs: write -> parse round trip.
        /// @prop C02 C08
        /// @tier thorough
        /// @feat default
        /// @bound f32 powers of two, biased exponent 160..=175
        /// @fn lexical-write-float::algorithm::compute_nearest_shorter[f32]
        /// @fn lexical-write-float::algorithm::to_decimal
        /// @mem 12
        /// @timeout 3600
        #[cfg_attr(kani, kani::unwind(24))]
        fn roundtrip_pow2_f32_e160() {
            let e: u32 = any();
            let neg: bool = any();
            assume(e >= 160 && e <= 175);
            let r = roundtrip_f32(((neg as u32) << 31) | (e << 23));
            vcheck!(r.is_ok(), "f32 power of two: write -> parse returns the identical bits");
        }

        /// f32 powers of two with biased exponent in 176..=191 (symbolic), both signs: write -> parse round trip.
        /// @prop C02 C08
        /// @tier thorough
        /// @feat default
        /// @bound f32 powers of two, biased exponent 176..=191
        /// @fn lexical-write-float::algorithm::compute_nearest_shorter[f32]
        /// @fn lexical-write-float::algorithm::to_decimal
        /// @mem 12
        /// @timeout 3600
        #[cfg_attr(kani, kani::unwind(24))]
        fn roundtrip_pow2_f32_e176() {
            let e: u32 = any();
            let neg: bool = any();
            assume(e >= 176 && e <= 191);
            let r = roundtrip_f32(((neg as u32) << 31) | (e << 23));
            vcheck!(r.is_ok(), "f32 power of two: write -> parse returns the identical bits");
        }

        /// f32 powers of two with biased exponent in 192..=207 (symbolic), both signs: write -> parse round trip.
        /// @prop C02 C08
        /// @tier thorough
        /// @feat default
        /// @bound f32 powers of two, biased exponent 192..=207
        /// @fn lexical-write-float::algorithm::compute_nearest_shorter[f32]
        /// @fn lexical-write-float::algorithm::to_decimal
        /// @mem 12
        /// @timeout 3600
        #[cfg_attr(kani, kani::unwind(24))]
        fn roundtrip_pow2_f32_e192() {
            let e: u32 = any();
            let neg: bool = any();
            assume(e >= 192 && e <= 207);
            let r = roundtrip_f32(((neg as u32) << 31) | (e << 23));
            vcheck!(r.is_ok(), "f32 power of two: write -> parse returns the identical bits");
        }

        /// f32 powers of two with biased exponent in 208..=223 (symbolic), both signs: write -> parse round trip.
        /// @prop C02 C08
        /// @tier thorough
        /// @feat default
        /// @bound f32 powers of two, biased exponent 208..=223
        /// @fn lexical-write-float::algorithm::compute_nearest_shorter[f32]
        /// @fn lexical-write-float::algorithm::to_decimal
        /// @mem 12
        /// @timeout 3600
        #[cfg_attr(kani, kani::unwind(24))]
        fn roundtrip_pow2_f32_e208() {
            let e: u32 = any();
            let neg: bool = any();
            assume(e >= 208 && e <= 223);
            let r = roundtrip_f32(((neg as u32) << 31) | (e << 23));
            vcheck!(r.is_ok(), "f32 power of two: write -> parse returns the identical bits");
        }

        /// f32 powers of two with biased exponent in 224..=239 (symbolic), both signs: write -> parse round trip.
        /// @prop C02 C08
        /// @tier thorough
        /// @feat default
        /// @bound f32 powers of two, biased exponent 224..=239
        /// @fn lexical-write-float::algorithm::compute_nearest_shorter[f32]
        /// @fn lexical-write-float::algorithm::to_decimal
        /// @mem 12
        /// @timeout 3600
        #[cfg_attr(kani, kani::unwind(24))]
        fn roundtrip_pow2_f32_e224() {
            let e: u32 = any();
            let neg: bool = any();
            assume(e >= 224 && e <= 239);
            let r = roundtrip_f32(((neg as u32) << 31) | (e << 23));
            vcheck!(r.is_ok(), "f32 power of two: write -> parse returns the identical bits");
        }

        /// f32 powers of two with biased exponent in 240..=254 (symbolic), both signs: write -> parse round trip.
        /// @prop C02 C08
        /// @tier thorough
        /// @feat default
        /// @bound f32 powers of two, biased exponent 240..=254
        /// @fn lexical-write-float::algorithm::compute_nearest_shorter[f32]
        /// @fn lexical-write-float::algorithm::to_decimal
        /// @mem 12
        /// @timeout 3600
        #[cfg_attr(kani, kani::unwind(24))]
        fn roundtrip_pow2_f32_e240() {
            let e: u32 = any();
            let neg: bool = any();
            assume(e >= 240 && e <= 254);
            let r = roundtrip_f32(((neg as u32) << 31) | (e << 23));
            vcheck!(r.is_ok(), "f32 power of two: write -> parse returns the identical bits");
        }

        /// every normal f64 power of two, both signs: write -> parse round trip.
        /// @prop C02 C08
        /// @tier thorough
        /// @mem 10
        /// @feat default radix_format
        /// @bound f64 powers of two (mantissa field zero), all 2046 normal exponents, both signs
        /// @fn lexical-write-float::algorithm::compute_nearest_shorter[f64]
        /// @timeout 5400
        #[cfg_attr(kani, kani::unwind(30))]
        fn roundtrip_pow2_f64() {
            let e: u64 = any();
            let neg: bool = any();
            assume(e >= 1 && e <= 2046);
            let bits = ((neg as u64) << 63) | (e << 52);
            let r = roundtrip_f64(bits);
            vcheck!(r.is_ok(), "f64 power of two: write -> parse returns the identical bits");
        }
    }
}
