//! Developer aid: native sweep of cmp_sep over several separator formats.
use lexverif::h_sep as hs;
fn sweep<const F: u128>(name: &str, maxlen: usize) {
    let alpha: &[u8] = b"019_.e+-a";
    let (mut n, mut bad) = (0u64, 0u64);
    for len in 0..=maxlen {
        let mut idx = vec![0usize; len];
        loop {
            let s: Vec<u8> = idx.iter().map(|&i| alpha[i]).collect();
            n += 1;
            if let Err(e) = hs::cmp_sep::<F>(&s) { bad += 1; if bad < 6 { println!("  {name} {:?}: {}", String::from_utf8_lossy(&s), e); } }
            if let Err(e) = hs::cmp_sep_partial_complete_int::<F>(&s) { bad += 1; if bad < 12 { println!("  {name} {:?}: {}", String::from_utf8_lossy(&s), e); } }
            if let Err(e) = hs::cmp_sep_grammar_int::<F>(&s) { bad += 1; if bad < 12 { println!("  {name} {:?}: {}", String::from_utf8_lossy(&s), e); } }
            if let Err(e) = hs::cmp_sep_grammar::<F>(&s) { bad += 1; if bad < 12 { println!("  {name} {:?}: {}", String::from_utf8_lossy(&s), e); } }
            if let Err(e) = hs::cmp_sep_partial_complete::<F>(&s) { bad += 1; if bad < 12 { println!("  {name} {:?}: {}", String::from_utf8_lossy(&s), e); } }
            let mut k = 0;
            while k < len { idx[k] += 1; if idx[k] < alpha.len() { break; } idx[k] = 0; k += 1; }
            if k == len { break; }
        }
    }
    // templates with many digits
    for t in [&b"1.123456789"[..], b"123456789.5", b"1_2.123456789", b"1.123456789e5", b"12345678901234567890.5", b"1.1234567890123456789012", b"1_234_567.891_234_5e1_0", b"0.000000001", b"1.5e123456789"] {
        n += 1;
        if let Err(e) = hs::cmp_sep::<F>(t) { bad += 1; println!("  {name} {:?}: {}", String::from_utf8_lossy(t), e); }
    }
    println!("{name}: {n} strings, {bad} disagreements");
}
fn main() {
    let m: usize = std::env::args().nth(1).map(|s| s.parse().unwrap()).unwrap_or(6);
    sweep::<{ hs::F_I }>("F_I", m); sweep::<{ hs::F_IC }>("F_IC", m); sweep::<{ hs::F_L }>("F_L", m); sweep::<{ hs::F_T }>("F_T", m);
    sweep::<{ hs::F_ILT }>("F_ILT", m); sweep::<{ hs::F_ALL }>("F_ALL", m); sweep::<{ hs::F_INT_I }>("F_INT_I", m);
    sweep::<{ hs::F_FRAC_I }>("F_FRAC_I", m); sweep::<{ hs::F_LTC }>("F_LTC", m); sweep::<{ hs::F_ILC }>("F_ILC", m); sweep::<{ hs::F_ITC }>("F_ITC", m); sweep::<{ hs::F_LC }>("F_LC", m); sweep::<{ hs::F_TC }>("F_TC", m); sweep::<{ hs::F_IL }>("F_IL", m); sweep::<{ hs::F_IT }>("F_IT", m); sweep::<{ hs::F_LT }>("F_LT", m); sweep::<{ hs::F_EXP_I }>("F_EXP_I", m); sweep::<{ hs::F_INT_ILTC }>("F_INT_ILTC", m);
}
