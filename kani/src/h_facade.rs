//! L1 / C17: the allocating facade equals lexical-core byte for byte; output is ASCII. C08: write -> parse round trip (integers).
use crate::vk::{any, assume, cover};
use crate::vcheck;

macro_rules! facade_int {
    ($t:ty, $N:expr) => {{
        let v: $t = any();
        let s = lexical::to_string(v);
        let mut buf = [0u8; $N];
        let core = lexical_core::write(v, &mut buf);
        vcheck!(s.len() == core.len(), "to_string length == lexical_core::write length");
        let sb = s.as_bytes();
        let mut i = 0;
        while i < $N {
            if i < core.len() {
                vcheck!(sb[i] == core[i], "to_string bytes == lexical_core::write bytes");
                vcheck!(core[i] < 0x80, "every emitted byte is 7-bit ASCII");
            }
            i += 1;
        }
        // C08: what the writer emits, the complete parser of the same format reads back to the same value
        let back: Result<$t, _> = lexical_core::parse::<$t>(core);
        vcheck!(back == Ok(v), "parse(write(v)) == v");
        let back2: Result<$t, _> = lexical::parse::<$t, _>(&s);
        vcheck!(back2 == Ok(v), "lexical::parse(to_string(v)) == v");
    }};
}

crate::harnesses! {
    /// u8: to_string == core write, ASCII, parse(write(v)) == v; all values.
    /// @prop C17 C08
    /// @feat default compact
    /// @fn lexical::to_string
    /// @fn lexical::parse
    /// @fn lexical_core::write / lexical_core::parse [u8]
    #[cfg_attr(kani, kani::unwind(6))]
    fn facade_u8_all() { facade_int!(u8, 3) }

    /// i8: same, all values.
    /// @prop C17 C08
    /// @tier thorough
    /// @feat default compact
    /// @fn lexical::to_string [i8]
    #[cfg_attr(kani, kani::unwind(7))]
    fn facade_i8_all() { facade_int!(i8, 4) }

    /// i16: same, all values.
    /// @prop C17 C08
    /// @tier thorough
    /// @feat default compact
    /// @fn lexical::to_string [i16]
    /// @timeout 1800
    #[cfg_attr(kani, kani::unwind(9))]
    fn facade_i16_all() { facade_int!(i16, 6) }

    /// parse facade == core parse on arbitrary bytes (u8/i8), len <= 2.
    /// @prop C17
    /// @feat default
    /// @bound input length <= 2 bytes (all byte values)
    /// @fn lexical::parse / lexical::parse_partial
    #[cfg_attr(kani, kani::unwind(5))]
    fn facade_parse_eq_core_len2() {
        let bytes: [u8; 2] = any();
        let len: usize = any();
        assume(len <= 2);
        let s = &bytes[..len];
        vcheck!(lexical::parse::<u8, _>(s) == lexical_core::parse::<u8>(s), "lexical::parse == lexical_core::parse (u8)");
        vcheck!(lexical::parse::<i8, _>(s) == lexical_core::parse::<i8>(s), "lexical::parse == lexical_core::parse (i8)");
        vcheck!(lexical::parse_partial::<i8, _>(s) == lexical_core::parse_partial::<i8>(s), "lexical::parse_partial == lexical_core::parse_partial (i8)");
        cover(len == 2);
    }

    /// parse facade == core parse on arbitrary bytes (u8/i8), len <= 3.
    /// @prop C17
    /// @tier thorough
    /// @feat default
    /// @timeout 2400
    /// @bound input length <= 3 bytes (all byte values)
    /// @fn lexical::parse / lexical::parse_partial
    #[cfg_attr(kani, kani::unwind(6))]
    fn facade_parse_eq_core_len3() {
        let bytes: [u8; 3] = any();
        let len: usize = any();
        assume(len <= 3);
        let s = &bytes[..len];
        vcheck!(lexical::parse::<u8, _>(s) == lexical_core::parse::<u8>(s), "lexical::parse == lexical_core::parse (u8)");
        vcheck!(lexical::parse::<i8, _>(s) == lexical_core::parse::<i8>(s), "lexical::parse == lexical_core::parse (i8)");
        vcheck!(lexical::parse_partial::<i8, _>(s) == lexical_core::parse_partial::<i8>(s), "lexical::parse_partial == lexical_core::parse_partial (i8)");
        cover(len == 3);
    }
}
