//! Developer aid: validates h_sep::cmp_number_slices natively (all strings <= 7 over {0 7 _ . e}).
#[cfg(feature = "format")]
fn main() {
    use lexverif::h_sep::*;
    let al = b"07_.e";
    let (mut n, mut bad) = (0u64, 0u64);
    for len in 0..=7usize {
        let tot = 5u64.pow(len as u32);
        for code in 0..tot {
            let mut c = code; let mut b = [0u8; 7];
            for k in 0..len { b[k] = al[(c % 5) as usize]; c /= 5; }
            n += 3;
            for (name, r) in [("frac", cmp_number_slices::<F_FRAC_I>(&b[..len])), ("int", cmp_number_slices::<F_INT_I>(&b[..len])), ("all", cmp_number_slices::<F_ALL>(&b[..len]))] {
                if let Err(e) = r { bad += 1; if bad < 10 { println!("{name} {:?}: {e}", String::from_utf8_lossy(&b[..len])); } }
            }
        }
    }
    println!("sweep_slices: {n} cases, bad = {bad}");
    std::process::exit(if bad > 0 { 1 } else { 0 });
}
#[cfg(not(feature = "format"))]
fn main() {}
