//! Developer aid / witness search for C09: write values into buffers of exactly `buffer_size_const` bytes.
use lexverif::h_bound::*;
fn main() {
    const F: u128 = lexical_util::format::STANDARD;
    static LOCS: std::sync::Mutex<Vec<(String, u64)>> = std::sync::Mutex::new(Vec::new());
    std::panic::set_hook(Box::new(|i| { let l = i.location().map(|l| format!("{}:{}", l.file(), l.line())).unwrap_or_default(); let mut g = LOCS.lock().unwrap(); if let Some(e) = g.iter_mut().find(|e| e.0 == l) { e.1 += 1; } else { g.push((l, 1)); } }));
    let mut x = 0x9E3779B97F4A7C15u64;
    let mut rnd = || { x ^= x << 13; x ^= x >> 7; x ^= x << 17; x };
    let (mut n, mut bad) = (0u64, 0u64);
    let mut shown = 0;
    for mind in [0usize, 1, 17, 28, 40, 55, 58, 60, 64, 100, 150] {
        for maxd in [0usize, 1, 5, 17, 30] {
            for nb in [-1i32, -3, -5, -6, -12, -13, -20, -50] {
                for pb in [1i32, 4, 5, 9, 12, 13, 20, 50] {
                    for trim in [false, true] {
                        let o = match opts_for(mind, maxd, nb, pb, trim) { Some(o) => o, None => continue };
                        if o.buffer_size_const::<f64, F>() > CAP { continue; }
                        for k in 0..(40 + 640) {
                            let v = match k { 0 => 0.0, 1 => -0.0, 2 => f64::MAX, 3 => f64::MIN, 4 => f64::MIN_POSITIVE, 5 => -5e-324, 6 => -1.5e10, 7 => -1.2345678901234567e-300,
                                8 => -1.2345678901234567e300, 9 => f64::NAN, 10 => f64::NEG_INFINITY, k if k >= 40 => { let e = k as i32 - 40 - 325; let m = if e % 2 == 0 { -1.2345678901234567 } else { -9.999999999999999 }; format!("{m}e{e}").parse::<f64>().unwrap() }, _ => { let b = rnd(); let v = f64::from_bits(b); if k % 2 == 0 { -(10f64.powi((b % 60) as i32 - 30)) * 1.2345678901234567 } else { v } } };
                            n += 1;
                            let o2 = o.clone();
                            let r = std::panic::catch_unwind(move || write_in_bound_f64::<F>(v, &o2, if maxd == 0 { Some((nb, pb)) } else { None }));
                            let e = match r { Ok(Ok(_)) => None, Ok(Err(e)) => Some(e.to_string()), Err(_) => Some("PANIC".to_string()) };
                            if let Some(e) = e { bad += 1; if shown < 12 { shown += 1; println!("  min={mind} max={maxd} breaks=({nb},{pb}) trim={trim} bound={} v={v:e}: {e}", o.buffer_size_const::<f64, F>()); } }
                            if k > 10 { let v32 = f32::from_bits(rnd() as u32); let o3 = o.clone(); n += 1;
                                let r = std::panic::catch_unwind(move || write_in_bound_f32::<F>(v32, &o3, if maxd == 0 { Some((nb, pb)) } else { None }));
                                if !matches!(r, Ok(Ok(_))) { bad += 1; if shown < 12 { shown += 1; println!("  f32 min={mind} max={maxd} breaks=({nb},{pb}) trim={trim} v={v32:e}"); } } }
                        }
                    }
                }
            }
        }
    }
    // emit-level contract
    #[cfg(not(feature = "compact"))]
    {
        let (mut n2, mut bad2) = (0u64, 0u64);
        for mind in [55usize, 58, 60, 100] { for nb in [-16i32, -13, -12, -5, -1] { for pb in [1i32, 9, 12, 13, 16] {
            let o = match opts_for(mind, 0, nb, pb, false) { Some(o) => o, None => continue };
            for sci in -324..=308 { for m in [1u64, 15, 12345678901234567, 99999999999999999, 5] {
                n2 += 1; let o2 = o.clone();
                let r = std::panic::catch_unwind(move || emit_in_bound(m, sci, &o2, nb, pb));
                if !matches!(r, Ok(Ok(_))) { bad2 += 1; if bad2 < 6 { println!("  emit min={mind} breaks=({nb},{pb}) mant={m} sci={sci}: {:?}", r.map_err(|_| "PANIC")); } }
            } }
        } } }
        println!("emit_in_bound: {n2} writes, {bad2} violations");
    }
    for (l, c) in LOCS.lock().unwrap().iter() { println!("  panic site {l}: {c}"); }
    println!("sweep_bound: {n} writes, {bad} violations");
}
