//! Developer aid: validates the arithmetic "shortest / round-trip / closest" oracle of h_dragonbox natively
//! (every f32 in [1,2); pseudo-random f64 in [1,2)) before the symbolic harness is trusted.
use lexverif::h_dragonbox::*;
fn main() {
    let mut bad = 0u64; let (mut bad_low, mut bad_high) = (0u64, 0u64);
    for m in 0u32..(1 << 23) {
        let bits = (127u32 << 23) | m;
        if let Err(e) = shortest_f32_unit(bits) { bad += 1; if m < 4096 { bad_low += 1; } if m & 0x7FF == 0 { bad_high += 1; } if bad < 10 { println!("f32 {:?} bits {bits:#x}: {e}", f32::from_bits(bits)); } }
        // cross-check against std: shortest repr of std must have the same length
        if m % 4099 == 0 { let v = f32::from_bits(bits); let mut b = [0u8; 64]; let s = lexical_write_float::ToLexical::to_lexical(v, &mut b); let t = format!("{v:?}"); if s != t.as_bytes() { bad += 1; println!("differs from std: {t}"); } }
    }
    println!("f32 [1,2): bad = {bad} (in the low12 domain: {bad_low}, in the high12 domain: {bad_high})");
    for be in 152u32..=254 { if let Err(e) = shorter_interval_f32(be) { bad += 1; println!("2^{}: {e}", be - 127); } }
    for be in 1077u64..=1150 { if let Err(e) = shorter_interval_f64(be) { bad += 1; println!("f64 2^{}: {e}", be - 1023); } }
    for be in 57u32..=126 { if let Err(e) = shorter_interval_f32_neg(be) { bad += 1; println!("f32 2^-{}: {e}", 127 - be); } }
    let mut x = 0x9E3779B97F4A7C15u64;
    for i in 0..20_000_000u64 {
        x ^= x << 13; x ^= x >> 7; x ^= x << 17;
        let m = if i < 4 { [0u64, 1, (1 << 52) - 1, 1 << 51][i as usize] } else { x & ((1 << 52) - 1) };
        let bits = (1023u64 << 52) | m;
        if let Err(e) = shortest_f64_unit(bits) { bad += 1; if bad < 20 { println!("f64 {:?} bits {bits:#x}: {e}", f64::from_bits(bits)); } }
    }
    // negative self-test of the oracle: perturbed outputs must be rejected
    let mut missed = 0u64;
    for m in (0u32..(1 << 23)).step_by(977) {
        let bits = (127u32 << 23) | m;
        let v = f32::from_bits(bits);
        let mut b = [0u8; 64];
        let s = lexical_write_float::ToLexical::to_lexical(v, &mut b).to_vec();
        let mm = ((bits & 0x7F_FFFF) | 0x80_0000) as u64;
        let n = s.len();
        let mut t = s.clone();
        if t[n - 1] < b'9' { t[n - 1] += 1; if shortest_unit_binade_f32(&t, mm).is_ok() { missed += 1; println!("accepted last digit + 1: {}", String::from_utf8_lossy(&t)); } }
        let mut t = s.clone();
        if t[n - 1] > b'1' { t[n - 1] -= 1; if shortest_unit_binade_f32(&t, mm).is_ok() { missed += 1; println!("accepted last digit - 1: {}", String::from_utf8_lossy(&t)); } }
        let mut t = s.clone(); t.push(b'1');
        if n < 10 && shortest_unit_binade_f32(&t, mm).is_ok() { missed += 1; println!("accepted a longer string: {}", String::from_utf8_lossy(&t)); }
        if n > 3 { let t = &s[..n - 1]; if shortest_unit_binade_f32(t, mm).is_ok() { missed += 1; println!("accepted a truncated string: {}", String::from_utf8_lossy(t)); } }
    }
    println!("sweep_shortest: bad = {bad}, oracle self-test misses = {missed}");
    bad += missed;
    std::process::exit(if bad > 0 { 1 } else { 0 });
}
